#!/bin/bash
# usage: seedtest.sh <patch.diff> <tier> <check-id>...   — apply a seeded change to /repo, run checks, undo.
P="$1"; TIER="$2"; shift 2
cd /repo || exit 2
[ -z "$(git status --porcelain)" ] || { echo "/repo not clean" >&2; exit 2; }
git apply "$P" || { echo "patch does not apply" >&2; exit 2; }
mkdir -p /tmp/seedtest_ev
for id in "$@"; do
  cp /verif/evidence/$id.json /tmp/seedtest_ev/$id.json 2>/dev/null
  out=$(/verif/bin/check $id --tier $TIER 2>&1); rc=$?
  echo "== $id exit=$rc"; echo "$out" | grep -E "VIOLATION|identity|KNOWN|MACHINERY|^\[" | head -12
  cp /tmp/seedtest_ev/$id.json /verif/evidence/$id.json 2>/dev/null
done
git -C /repo checkout -- . ; git -C /repo status --short
