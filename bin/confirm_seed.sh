#!/bin/bash
# usage: confirm_seed.sh <worktree> ; worktree has patch applied + demo in place + SEED/{patch.diff,meta.json}
# Confirms: (1) suite passes with the patch (demo excluded), (2) demo fails with patch, (3) demo passes without.
W="$1"; cd "$W" || exit 2
export CARGO_TARGET_DIR="$W/target" CARGO_NET_OFFLINE=true
DEMO_PATH=$(python3 -c "import json;print(json.load(open('SEED/meta.json'))['demo_path'])")
DEMO_CMD=$(python3 -c "import json;print(json.load(open('SEED/meta.json'))['demo_cmd'])")
LOG=SEED/confirm.log; : > $LOG
echo "== demo with patch: $DEMO_CMD" >> $LOG
( eval "$DEMO_CMD" ) >> $LOG 2>&1; echo "demo_with_patch_exit=$?" >> $LOG
mv "$DEMO_PATH" /tmp/$(basename $W).demo.rs.aside
echo "== suite with patch" >> $LOG
cargo test -p akd -p akd_core --offline -j 6 2>&1 | grep -E "^test result|FAILED|failed" >> $LOG; echo "suite_exit=${PIPESTATUS[0]}" >> $LOG
mv /tmp/$(basename $W).demo.rs.aside "$DEMO_PATH"
git apply -R SEED/patch.diff || { echo "reverse apply failed" >> $LOG; exit 1; }
echo "== demo without patch" >> $LOG
( eval "$DEMO_CMD" ) >> $LOG 2>&1; echo "demo_without_patch_exit=$?" >> $LOG
git apply SEED/patch.diff
grep -E "_exit=|^test result" $LOG
