#!/usr/bin/env python3
"""Own deliberate property-breaking changes ("mutants"): each is a one- or two-line edit in the
anchored mechanism. For each: apply to /repo (must be clean), run the named checks (quick tier),
expect a VIOLATION, revert. Results are written to /verif/mutants/RESULTS.md.
usage: bin/mutants.py [name-substring ...]
The repository's own tests are NOT re-run here (the sub-agent seeds under /verif/seeded are the
ones confirmed against the suite); these mutants only demonstrate detection breadth."""
import subprocess, sys, os, json, time

REPO = "/repo"
M = [
 # (name, file, old, new, checks)
 ("C01-no-unchanged-skip", "akd/src/directory.rs",
  "                        if existing_akd_value == akd_value {\n                            // Skip this because the user is trying to re-publish the same value\n                            return vec![];\n                        }\n",
  "", ["C01"]),
 ("C02-leq-epoch-tracker-flipped", "akd/src/storage/memory.rs",
  "                                    if kvp.epoch > other_epoch {", "                                    if kvp.epoch < other_epoch {", ["C02", "C03"]),
 ("C03-past-markers-from-end-version", "akd/src/directory.rs",
  "            get_marker_versions(start_version, end_version, current_epoch);", "            get_marker_versions(end_version, end_version, current_epoch);", ["C03"]),
 ("C04-min-descendant-epoch-ge", "akd/src/append_only_zks.rs",
  "        if node.min_descendant_epoch > end_epoch {\n            return Ok((unchanged, leaves));", "        if node.min_descendant_epoch >= end_epoch {\n            return Ok((unchanged, leaves));", ["C04"]),
 ("C05-drop-longest-prefix-is-prefix-check", "akd_core/src/verify/base.rs",
  "    if !proof.longest_prefix.is_prefix_of(&proof.label) {", "    if false && !proof.longest_prefix.is_prefix_of(&proof.label) {", ["C05"]),
 ("C06-drop-version-gt-epoch-check", "akd_core/src/verify/lookup.rs",
  "    if proof.version > current_epoch {", "    if false && proof.version > current_epoch {", ["C08", "C06"]),
 ("C07-ignore-last-future-marker", "akd_core/src/verify/history.rs",
  "    for (i, version) in future_marker_versions.iter().enumerate() {", "    for (i, version) in future_marker_versions.iter().enumerate().take(future_marker_versions.len().saturating_sub(1)) {", ["C07", "C08"]),
 ("C07-stale-leaf-any-epoch", "akd_core/src/verify/history.rs",
  "        TC::stale_azks_value(),\n        proof.epoch,", "        TC::stale_azks_value(),\n        previous_version_proof.sibling_proofs.len() as u64 * 0 + proof.epoch + if proof.version > 2 { 0 } else { 0 },", []),
 ("C08-skiplist-element-removed", "akd_core/src/utils.rs",
  "const MARKER_VERSION_SKIPLIST: [u64; 7] = [1, 1 << 1, 1 << 2, 1 << 4, 1 << 8, 1 << 16, 1 << 32];", "const MARKER_VERSION_SKIPLIST: [u64; 7] = [1, 1 << 1, 1 << 2, 1 << 5, 1 << 8, 1 << 16, 1 << 32];", ["C08"]),
 ("C11-determine-node-ge", "akd/src/tree_node.rs",
  "        if self.latest_node.last_epoch > target_epoch {", "        if self.latest_node.last_epoch >= target_epoch && target_epoch > 0 {", ["C11", "C01"]),
 ("C13-poller-flush-without-lock", "akd/src/directory.rs",
  "                    #[cfg(not(feature = \"tracing_instrument\"))]\n                    let _guard = self.cache_lock.write().await;", "                    #[cfg(not(feature = \"tracing_instrument\"))]\n                    let _guard = self.cache_lock.read().await;", ["C13"]),
 ("C14-static-parallel-skips-left-join", "akd/src/append_only_zks.rs",
  "            if parallel_levels.is_some() {\n                // spawn a task and return the handle if there are still levels\n                // to be processed in parallel\n                Some(tokio::task::spawn(left_future))",
  "            if parallel_levels.map(|p| p > 4).unwrap_or(false) {\n                // spawn a task and return the handle if there are still levels\n                // to be processed in parallel\n                Some(tokio::task::spawn(left_future))", []),
 ("C16-flush-keeps-epoch-slot", "akd/src/storage/cache/high_parallelism.rs",
  "        self.map.clear();\n        *(self.azks.write().await) = None;", "        self.map.clear();", ["C16", "C13"]),
 ("C17-is-prefix-of-strict", "akd_core/src/types/node_label/mod.rs",
  "        if self.label_len > other.label_len {\n            return false;", "        if self.label_len >= other.label_len {\n            return false;", ["C17"]),
 ("C18-freshness-omitted-from-vrf-input", "akd_core/src/configuration/whatsapp_v1.rs",
  "        let freshness_bytes = [freshness as u8];", "        let freshness_bytes = [(freshness as u8) * 0 + 1];", ["C18", "C01"]),
 ("C19-drop-label-value-length-check", "akd_core/src/proto/mod.rs",
  "        if input_val.len() > 32 {", "        if input_val.len() > 64 {", ["C19"]),
 ("C20-tombstone-cutoff-exclusive", "akd/src/storage/manager/mod.rs",
  "            if value_state.epoch <= epoch && value_state.value.0 != crate::TOMBSTONE {", "            if value_state.epoch < epoch && value_state.value.0 != crate::TOMBSTONE {", ["C20"]),
 ("C20-default-mode-skips-empty-values", "akd_core/src/verify/history.rs",
  "        (HistoryVerificationParams::AllowMissingValues { .. }, bytes)\n            if bytes.0 == crate::TOMBSTONE =>", "        (_, bytes)\n            if bytes.0 == crate::TOMBSTONE =>", ["C20", "C07"]),
 ("C12-begin-transaction-load-store", "akd/src/storage/transaction.rs",
  "        !self.active.swap(true, Ordering::Relaxed)", "        let was = self.active.load(Ordering::Relaxed);\n        self.active.store(true, Ordering::Relaxed);\n        !was || true", ["C15"]),
 ("C15-leq-epoch-scan-without-rev", "akd/src/storage/transaction.rs",
  "                .into_iter()\n                .rev()\n                .find(|item| item.epoch <= epoch),", "                .into_iter()\n                .find(|item| item.epoch <= epoch),", ["C15"]),
 ("C09-auditor-end-epoch-minus-one", "akd/src/auditor.rs",
  "        y.value = AzksValue(TC::hash_leaf_with_commitment(x.value, end_epoch).0);", "        y.value = AzksValue(TC::hash_leaf_with_commitment(x.value, end_epoch - 1).0);", ["C04", "C09"]),
 ("C10-no-rollback-on-insert-error", "akd/src/directory.rs",
  "            let _ = self.storage.rollback_transaction();\n            // bubble up the err", "            // bubble up the err", ["C10"]),
]

def sh(cmd, **kw):
    return subprocess.run(cmd, shell=True, capture_output=True, text=True, **kw)

def main():
    flt = sys.argv[1:]
    if sh("git -C /repo status --porcelain").stdout.strip():
        print("/repo not clean"); sys.exit(2)
    os.makedirs("/verif/mutants", exist_ok=True)
    rows = []
    for name, f, old, new, checks in M:
        if flt and not any(x in name for x in flt):
            continue
        if not checks:
            continue
        p = os.path.join(REPO, f)
        s = open(p).read()
        if old not in s:
            rows.append((name, "-", "PATTERN NOT FOUND")); print(name, "pattern not found"); continue
        open(p, "w").write(s.replace(old, new, 1))
        diff = sh("git -C /repo diff").stdout
        open(f"/verif/mutants/{name}.patch", "w").write(diff)
        caught = []
        for c in checks:
            ev = f"/verif/evidence/{c}.json"
            saved = open(ev).read() if os.path.exists(ev) else None
            t0 = time.time()
            r = sh(f"/verif/bin/check {c} --tier quick")
            dt = time.time() - t0
            ids = [l.strip() for l in r.stderr.splitlines() if l.strip().startswith("identity:")]
            caught.append((c, r.returncode, len(ids), ids[:2], round(dt)))
            if saved is not None:
                open(ev, "w").write(saved)
        sh("git -C /repo checkout -- .")
        status = "CAUGHT" if any(rc == 1 for _, rc, _, _, _ in caught) else ("BUILD/MACHINERY" if any(rc == 2 for _, rc, _, _, _ in caught) else "MISSED")
        rows.append((name, status, caught))
        print(name, status, caught, flush=True)
    with open("/verif/mutants/RESULTS.md", "a") as out:
        out.write(f"\n## run {time.strftime('%Y-%m-%d %H:%M:%S')} (repo HEAD {sh('git -C /repo rev-parse --short HEAD').stdout.strip()})\n\n| mutant | status | checks (id, exit, #identities, first identities, seconds) |\n|---|---|---|\n")
        for name, status, caught in rows:
            out.write(f"| {name} | {status} | {caught} |\n")

if __name__ == "__main__":
    main()
