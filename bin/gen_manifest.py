#!/usr/bin/env python3
"""Regenerates /verif/MANIFEST.json from the table below (keeps it schema-valid at all times)."""
import json, os, subprocess
ROOT = os.path.dirname(os.path.dirname(os.path.abspath(__file__)))

HOOK_COMMITS = subprocess.run(["git", "-C", "/repo", "log", "--format=%H %s", "--grep=^verif hooks"],
                              capture_output=True, text=True).stdout.strip().splitlines()

TB = "trusted base: blake3 collision resistance, the hard-coded test VRF key, tokio 1.53 current-thread runtime semantics, the harness's reference models (harness/src/model.rs)"

CHECKS = {
 "C01": dict(cat="exploration", sec="§4 C01", tech="exhaustive bounded enumeration of publish histories on the real code vs a from-scratch reference model (DirModel + blake3 trie)",
   text="Every publish of every history over a 3-label/2-value alphabet up to depth 2 (thorough 3), an extended alphabet (empty/long labels and values, repeated labels) and update chains to 17 (thorough 33) epochs is executed on the real Directory and its (epoch, root hash) compared with a from-scratch canonical-trie hash under both configurations; plus all 3^8 two-epoch assignments of an adversarial-prefix label universe through the real batch insertion. Exhaustive within those bounds, nothing sampled."),
 "C02": dict(cat="exploration", sec="§4 C02", tech="exhaustive bounded enumeration of histories x labels; real lookup/batch_lookup + real lookup_verify vs DirModel",
   text="After every epoch of every history in the same bounded history space, every label (published or not) is looked up singly and in every batch subset on the real code, verified with the real client verifier against the returned epoch hash and compared with ground truth."),
 "C03": dict(cat="exploration", sec="§4 C03", tech="exhaustive bounded enumeration of histories x labels x history parameters; real key_history + key_history_verify vs DirModel",
   text="After every epoch of every bounded history, key_history for every published label under Complete and MostRecent(N) for N below, at and above the number of versions is verified with the real verifier and compared with the model's newest-first list."),
 "C04": dict(cat="exploration", sec="§4 C04", tech="exhaustive bounded enumeration of histories x all epoch pairs; real audit + audit_verify against published hashes",
   text="After every epoch E of every bounded history, audit(s,e) for every 0<=s<e<=E is produced by the real code and verified by the real auditor against the hashes the directory published (cross-checked against the model trie); invalid ranges must be refused."),
}

def main():
    checks = []
    for pid, c in sorted(CHECKS.items()):
        checks.append({
            "property_id": pid,
            "quick_cmd": f"bin/check {pid} --tier quick",
            "thorough_cmd": f"bin/check {pid} --tier thorough",
            "evidence_file": f"/verif/evidence/{pid}.json",
            "replay_cmd_template": f"bin/check {pid} --replay {{path}}",
            "engine": c.get("engine", "akdmc"),
            "level_claimed": {"category": c["cat"], "text": c["text"], "design_ref": c["sec"]},
            "level_note": c.get("note", TB),
            "technique": c["tech"],
        })
    props = [json.loads(l)["id"] for l in open(os.path.join(ROOT, "properties.jsonl"))]
    na = []
    NA_REASONS = {}
    for p in props:
        if p not in CHECKS:
            na.append({"property_id": p, "reason": NA_REASONS.get(p, "check not built yet in this round (planned: see DESIGN.md §4); not claimed until its check runs clean")})
    m = {
        "version": 1,
        "setup_cmd": "cd /verif/harness && cp -n /repo/Cargo.lock Cargo.lock; CARGO_NET_OFFLINE=true cargo build --release --offline",
        "hooks": {
            "guard": "cargo feature verif_hooks on crate akd",
            "enable": "the harness crate /verif/harness depends on /repo/akd by path with features [verif_hooks, public_tests, whatsapp_v1, experimental, public_auditing]; bin/check rebuilds it from /repo's working tree",
            "baseline_off_cmd": "cd /repo && cargo test --workspace --no-fail-fast --offline",
            "source_commits": [l.split()[0] for l in HOOK_COMMITS],
            "add_only": True,
        },
        "engines": [
            {"name": "akdmc", "path": "/verif/harness", "serves_properties": sorted(CHECKS.keys()),
             "kind_free_text": "Rust harness linking the real akd/akd_core crates: E1 choice-tree DFS explorer with deviation bounding, E2 controlled scheduler over tokio tasks (on_thread_park quiescence hook, gates at every Database/VRF call), E3 explicit-state BFS over StorageManager+cache+transaction, E4 marker-version sweep; reference models in harness/src/model.rs"},
        ],
        "checks": checks,
        "not_applicable": na,
        "notes": "All checks explore the real implementation exhaustively within stated bounds (see DESIGN.md). Known findings: /verif/known_findings.json.",
    }
    json.dump(m, open(os.path.join(ROOT, "MANIFEST.json"), "w"), indent=1)
    print("MANIFEST.json written:", len(checks), "checks,", len(na), "not_applicable")

if __name__ == "__main__":
    main()
