#!/usr/bin/env python3
"""Regenerates /verif/MANIFEST.json from the table below (keeps it schema-valid at all times)."""
import json, os, subprocess
ROOT = os.path.dirname(os.path.dirname(os.path.abspath(__file__)))

HOOK_COMMITS = subprocess.run(["git", "-C", "/repo", "log", "--format=%H %s", "--grep=^verif hooks"],
                              capture_output=True, text=True).stdout.strip().splitlines()

TB = "trusted base: blake3 collision resistance, the hard-coded test VRF key, tokio 1.53 current-thread runtime semantics, the harness's reference models (harness/src/model.rs)"

CHECKS = {
 "C01": dict(cat="exploration", sec="§4 C01", tech="exhaustive bounded enumeration of publish histories on the real code vs a from-scratch reference model (DirModel + blake3 trie)",
   text="Every publish of every history over a 3-label/2-value alphabet up to depth 2 (thorough 3), an extended alphabet (empty/long labels and values, repeated labels) and update chains to 17 (thorough 33) epochs is executed on the real Directory and its (epoch, root hash) compared with a from-scratch canonical-trie hash under both configurations; plus all 3^8 two-epoch assignments of an adversarial-prefix label universe through the real batch insertion. Exhaustive within those bounds, nothing sampled."),
 "C02": dict(cat="exploration", sec="§4 C02", tech="exhaustive bounded enumeration of histories x labels; real lookup/batch_lookup + real lookup_verify vs DirModel",
   text="After every epoch of every history in the same bounded history space, every label (published or not) is looked up singly and in every batch subset on the real code, verified with the real client verifier against the returned epoch hash and compared with ground truth."),
 "C03": dict(cat="exploration", sec="§4 C03", tech="exhaustive bounded enumeration of histories x labels x history parameters; real key_history + key_history_verify vs DirModel",
   text="After every epoch of every bounded history, key_history for every published label under Complete and MostRecent(N) for N below, at and above the number of versions is verified with the real verifier and compared with the model's newest-first list."),
 "C04": dict(cat="exploration", sec="§4 C04", tech="exhaustive bounded enumeration of histories x all epoch pairs; real audit + audit_verify against published hashes",
   text="After every epoch E of every bounded history, audit(s,e) for every 0<=s<e<=E is produced by the real code and verified by the real auditor against the hashes the directory published (cross-checked against the model trie); invalid ranges must be refused."),

 "C05": dict(cat="exploration", sec="§4 C05", tech="exhaustive enumeration of leaf sets x query labels x adversarial proof candidates assembled from real tree nodes, judged by the real verifiers against set membership; single-read fault enumeration on the proof generators",
   text="All 256 subsets of an 8-label universe with adversarial shared prefixes (0,1,7,8,9,254,255 bits) are built with the real insertion; for 60+ query labels each, the honest generators' proofs and every candidate a prover holding the tree can assemble (every ancestor as claimed longest prefix with real/swapped/emptied/grandchild children; every real path with label, direction, sibling or length altered; foreign hashes/epochs) go through the real verifiers; a proof may verify only if its statement is true of the set."),
 "C06": dict(cat="exploration", sec="§4 C06", tech="exhaustive enumeration of histories x labels x claimed versions x adversarial lookup-proof menu built from real material; real lookup_verify vs DirModel",
   text="After every epoch of every bounded history, for every label and every claimed version 1..n+1 a lookup proof is assembled from real material (real VRF proofs, real membership proofs, the absence generator's output and a forged absence at every real ancestor), with value/epoch/nonce substitutions and single-field swaps with other labels' and earlier epochs' proofs; lookup_verify may accept only the latest triple."),
 "C09": dict(cat="exploration", sec="§4 C09", tech="exhaustive enumeration of leaf sets x every subset of real nodes as unchanged x every small inserted set from a pool; verdict from the real auditor, semantic superset oracle from the reference trie",
   text="For every leaf set (<=3/4 of a 6-label universe) EVERY subset of the real nodes of its tree is offered as unchanged together with every <=2/3-subset of an inserted pool (original/replaced leaves for all labels, interior labels), the end hash chosen by the server; the real verify_consecutive_append_only may accept only if the end hash is the canonical trie of the old leaves plus inserted ones and the node set is prefix-free. Honest multi-epoch audits of all bounded histories verify and every list-level tampering is rejected."),
 "C10": dict(cat="fault_enumeration", sec="§4 C10", tech="exhaustive single-fault enumeration: every storage call index of every publish fails once, on the real publish path over a fault-injecting Database wrapper",
   text="For every (prefix history, next batch of the 27-batch alphabet, manager variant {no cache, cache, warmed cache}) the publish is re-run once per storage call with that call failing; afterwards the same and a fresh instance must serve exactly the previous state (full reader suite vs DirModel), no transaction may be open, and a retry must reach the fault-free state. Thorough adds depth-2 prefixes and a second failing publish."),
 "C11": dict(cat="fault_enumeration", sec="§4 C11", tech="exhaustive crash-point enumeration: every subset (bounded) of the captured commit batch applied to the pre-commit snapshot, opened by fresh reader instances",
   text="Every commit along the bounded histories is captured at the TransactionCommit write; every subset of its non-epoch records (all subsets up to 7/9 records, else all prefixes of 3 orders plus all subsets of size <=2 and >=n-2) is applied to the snapshot and a fresh ReadOnlyDirectory / cached Directory must serve the previous epoch intact (epoch hash, lookups, histories incl. MostRecent, audits) with the unfinished epoch invisible; once the epoch record lands the new epoch is served completely."),
 "C12": dict(cat="model_checking", sec="§4 C12", tech="stateless model checking of the implementation: all schedules of 2-3 real publish tasks up to a preemption bound under a controlled scheduler owning every storage/VRF await point",
   text="Real Directory::publish calls run as tokio tasks on clones of one directory under a controlled scheduler (tokio on_thread_park quiescence hook; gates at every Database call and VRF key fetch); every schedule with <=2 (thorough <=3) preemptions is executed to completion and judged: some serial order must explain every returned (epoch, hash) and the final state on the same and a fresh instance."),
 "C13": dict(cat="model_checking", sec="§4 C13", tech="stateless model checking of the implementation: all schedules of reader operations vs publishes / failing commits / the change poller up to a deviation bound, plus an exhaustive reader-lag matrix and a one-epoch-lag reader on every publish edge of the bounded history walk (incl. tree-shape alphabets)",
   text="Reader operations (lookup, batch lookup, history Complete/MostRecent, audit, epoch hash) on the writer, a clone, or a cached/uncached ReadOnlyDirectory run concurrently with 1-2 publishes (optionally with a failing commit, optionally with the poller whose timer is a scheduler choice) under the controlled scheduler, all schedules within the bound; plus warmed readers lagging 0-3 epochs. Every answer must be Err or name a really published (epoch, hash) and verify against it to ground truth as of that epoch."),
 "C17": dict(cat="exploration", sec="§4 C17", tech="exhaustive enumeration of label pairs / (label, length) / label sets against a Vec<bool> bit-string model",
   text="All ordered pairs of all labels of length 0..8 (thorough 0..10), a boundary family around every byte boundary up to 256 bits (also with garbage beyond the length), and all small label sets x every common prefix in sorted-searchable vs unsorted representation are compared with the bit-string model for is_prefix_of, longest common prefix, get_prefix, prefix ordering, Ord/Eq, partition, set common prefix and contains_prefix."),

 "C15": dict(cat="model_checking", sec="§4 C15", tech="explicit-state BFS over StorageManager operation histories with exact state fingerprints (verif_hooks), every state reached by replay on the real objects; read suite vs a map-based reference model and vs a real commit",
   text="Breadth-first search over histories of set / batch_set / begin / commit / rollback on a real StorageManager (with and without cache) over a small universe of epoch records, tree nodes and well-formed user states (incl. tombstone-shaped rewrites), states deduplicated by an exact fingerprint of database + transaction log + cache. In every state the full read suite (get, batch_get over key subsets, every user-state query for every flag/argument, bulk versions for every user subset) is compared with StoreModel(committed+pending); committable open transactions are committed for real and re-read; op contracts (begin refused while open, rollback, commit batch = pending with epoch record last) are checked on every transition."),
 "C16": dict(cat="model_checking", sec="§4 C16", tech="explicit-state BFS over cached-StorageManager histories under a virtual clock with exact fingerprints, plus stateless model checking of 2-3 concurrent manager tasks under the controlled scheduler (incl. response-delivery scheduling points)",
   text="BFS over histories of one cached StorageManager: writes (incl. writes and commit batches the database rejects), transactions, flush, tombstoning, cache-filling reads, virtual clock advances across item lifetimes and clean periods, cleaning on/off, several (lifetime, memory limit, clean frequency) settings, and an external writer for the flush clause; after every transition every get/batch_get/get_direct equals the database (or the pending value). Concurrent part: all schedules (bounded preemptions) of reader vs writer / committing transaction / flush tasks on one manager with request and response delivery as separate scheduling points; at quiescence reads equal the database."),

 "C07": dict(cat="exploration", sec="§4 C07", tech="exhaustive enumeration of histories x labels x adversarial history-proof menu (claimed ranges with recomputed markers and forged absences, list-level alterations) and dishonest trees built by a harness-side publisher; real key_history_verify vs DirModel",
   text="After every epoch of every bounded history, for every label every claimed version range assembled from real material (marker lists recomputed for the claim, absences of existing markers from the honest generator or forged at every real ancestor) and every list-level alteration of the honest proofs (drop newest/oldest, gaps, duplicates, reversal, value/epoch/nonce/tombstone substitution, omitted/surplus markers) is verified under Complete and MostRecent(N) in both verification modes: accepted implies the result equals the model's list (empty values only when the verifier opted in). Trees whose stale marker is missing or 1-2 epochs late must not verify for any parameter covering the affected version."),
 "C19": dict(cat="exploration", sec="§4 C19", tech="exhaustive round-trip of every proof/component produced over bounded histories and exhaustive deviation-1 corruption (every truncation, bit flip, field deletion/duplication at every nesting level, size violations) of representative encodings plus all short byte strings, decoded by the real code under catch_unwind in a child process",
   text="Every lookup, history and append-only proof and each component produced after every epoch of every bounded history is converted to its protobuf message and bytes and back (identity) and the decoded proof verified to the same result (incl. the wasm client's path and AuditBlob). Representative encodings are corrupted exhaustively at deviation 1 (every truncation length, every single-bit flip, every single-field deletion/duplication at every nesting level through a schema-aware wire-format editor, oversize label lengths/values, wrong-size digests and VRF proofs) and every byte string of length <=2 (thorough 3) is fed to every decoder: no panic; Err, or a proof that fails or verifies to the original result."),
 "C20": dict(cat="exploration", sec="§4 C20", tech="exhaustive enumeration of histories x labels x every tombstone cut-off epoch x manager variants x continuation publishes; real tombstone_value_states + real proofs/verifiers vs DirModel",
   text="After every epoch of every bounded history, for every label with >=2 versions and every cut-off epoch before its latest update, values are tombstoned through the directory's own manager (uncached / cached and warmed) or a second manager; storage may differ only in that label's old value records; epoch hash, all audits, own lookup and all other labels are unchanged and verify; the label's history under AllowMissingValues equals the model with exactly the replaced values empty and under Default is rejected iff the range contains a replaced entry, for Complete and every MostRecent(k); continuation publishes follow the model."),

 "C14": dict(cat="exploration", sec="§4 C14", tech="exhaustive enumeration of histories x configuration variants (parallelism, cache settings under a virtual clock, restarts, read-only wrapper, two feature builds) compared with the reference configuration / model; exhaustive orders and sub-batchings at tree level; all interleavings of one publish's subtasks under the controlled scheduler",
   text="Every bounded history is run under 14 (thorough 17) configuration variants and by a second build of the harness without akd's preload/parallel-VRF features; after every publish the epoch hash, the whole reader suite and the stored tree must equal the reference configuration. Every <=4/5-subset of an adversarial 8-label universe is inserted as every ordered partition into sub-batches within one epoch (sequential and Static(4)) and every tree cut in every order; all interleavings (<=2/3 preemptions) of the subtasks of one publish with parallel insertion/preload must give the same result and stored tree."),
 "C18": dict(cat="exploration", sec="§4 C18", tech="exhaustive enumeration over a structured alphabet of keys x labels x freshness x versions and its deviation-1 neighbourhood (every other alphabet element substituted, every bit of the claimed label, every bit/byte of the proof), real VRF code and real lookup_verify",
   text="3 keys x 6 labels (empty, prefix-related, 300 bytes) x 2 freshness x 8 versions across the u64 range x 2 configurations: all derivation paths agree and are deterministic, the proof verifies and yields the placed label; every single-field alteration at verification (key, label, freshness, version from the alphabet; every bit of the claimed node label; every bit and 0x00/0xff of every proof byte; wrong sizes) is rejected or yields the same label; labels and commitments are distinct across keys; directory-level lookups verify only under the right key and with unaltered/unexchanged VRF proofs. The enumeration says nothing about cryptographic soundness beyond this alphabet."),

 "C08": dict(cat="model_checking", sec="§4 C08", tech="exhaustive sweep of an abstract constraint-set model (atoms = fresh/stale leaves required present/absent, marker lists from the real get_marker_versions) over epochs x version ranges, bound to the implementation by exhaustive conformance experiments and pair replays on real dishonest trees; plus exhaustive enumeration of small ARBITRARY (non-canonical) trees through the real membership / non-membership verifiers (presence and absence of one label never both verify)",
   text="For every epoch up to 64 (thorough 160) every pair of history ranges with different latest versions, and for every epoch up to 1024 (thorough 4096, plus 2^16 and 2^32 neighbourhoods) every (complete history latest n, lookup version m) pair is examined for an atom one proof needs present and the other absent. The abstraction is validated against the real verifiers on real trees built by a dishonest publisher: every history range and lookup at every epoch up to 7 (thorough 10) verifies on its minimal tree, fails with any one required leaf removed and with any one forbidden leaf added; pairs without a conflict atom are replayed on the union tree and reported only if both real verifiers accept. The known lookup-vs-history gap is pinned by the digest of the exact pair set."),
}

def main():
    checks = []
    for pid, c in sorted(CHECKS.items()):
        checks.append({
            "property_id": pid,
            "quick_cmd": f"bin/check {pid} --tier quick",
            "thorough_cmd": f"bin/check {pid} --tier thorough",
            "evidence_file": f"/verif/evidence/{pid}.json",
            "replay_cmd_template": f"bin/check {pid} --replay {{path}}",
            "engine": c.get("engine", "akdmc"),
            "level_claimed": {"category": c["cat"], "text": c["text"], "design_ref": c["sec"]},
            "level_note": c.get("note", TB),
            "technique": c["tech"],
        })
    props = [json.loads(l)["id"] for l in open(os.path.join(ROOT, "properties.jsonl"))]
    na = []
    NA_REASONS = {}
    for p in props:
        if p not in CHECKS:
            na.append({"property_id": p, "reason": NA_REASONS.get(p, "check not built yet in this round (planned: see DESIGN.md §4); not claimed until its check runs clean")})
    m = {
        "version": 1,
        "setup_cmd": "cd /verif/harness && cp -n /repo/Cargo.lock Cargo.lock; CARGO_NET_OFFLINE=true cargo build --release --offline && CARGO_NET_OFFLINE=true cargo build --release --offline --no-default-features --features hooks --target-dir /verif/harness/target-nofeat",
        "hooks": {
            "guard": "cargo feature verif_hooks on crate akd",
            "enable": "the harness crate /verif/harness depends on /repo/akd by path with features [verif_hooks, public_tests, whatsapp_v1, experimental, public_auditing]; bin/check rebuilds it from /repo's working tree",
            "baseline_off_cmd": "cd /repo && cargo test --workspace --no-fail-fast --offline",
            "source_commits": [l.split()[0] for l in HOOK_COMMITS],
            "add_only": True,
        },
        "engines": [
            {"name": "akdmc", "path": "/verif/harness", "serves_properties": sorted(CHECKS.keys()),
             "kind_free_text": "Rust harness linking the real akd/akd_core crates: E1 choice-tree DFS explorer with deviation bounding, E2 controlled scheduler over tokio tasks (on_thread_park quiescence hook, gates at every Database/VRF call), E3 explicit-state BFS over StorageManager+cache+transaction, E4 marker-version sweep; reference models in harness/src/model.rs"},
        ],
        "checks": checks,
        "not_applicable": na,
        "notes": "All checks explore the real implementation exhaustively within stated bounds (see DESIGN.md). Known findings: /verif/known_findings.json.",
    }
    json.dump(m, open(os.path.join(ROOT, "MANIFEST.json"), "w"), indent=1)
    print("MANIFEST.json written:", len(checks), "checks,", len(na), "not_applicable")

if __name__ == "__main__":
    main()
