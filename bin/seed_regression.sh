#!/bin/bash
# Runs every stored seeded change against the checks that are expected to catch it (quick tier) and appends a
# table to /verif/seeded/RESULTS.md. /repo must be clean; nothing else may use /repo meanwhile.
cd /verif
declare -A CHECKS=(
 [C01]="C01" [C01r2]="C01" [C02]="C13" [C02r2]="C11" [C03]="C11" [C03r2]="C03" [C04]="C04 C09" [C04r2]="C13"
 [C05]="C05 C06" [C05r2]="C17" [C06]="C06" [C06r2]="C06 C07" [C07]="C07 C08" [C07r2]="C07" [C08]="C08 C07" [C08r2]="C08"
 [C09b]="C09" [C09r2]="C09" [C10]="C10" [C10r2]="C10" [C11]="C11" [C11r2]="C11" [C12b]="C12" [C12r2]="C12"
 [C13]="C13" [C13r2]="C13" [C14]="C14 C16" [C14r2]="C14" [C15]="C15" [C15r2]="C15" [C16]="C16" [C16r2]="C16"
 [C17]="C17" [C17r2]="C17" [C18]="C18" [C18r2]="C18" [C19]="C19" [C19r2]="C19" [C20]="C20" [C20r2]="C20 C16"
 [C01r3]="C01" [C02r3]="C18" [C03r3]="C13" [C04r3]="C13" [C05r3]="C05 C10" [C06r3]="C06" [C07r3]="C07 C05" [C08r3]="C08 C17"
 [C09r3]="C09" [C10r3]="C10" [C11r3]="C11" [C12r3]="C12" [C13r3]="C13" [C14r3]="C14 C13" [C15r3]="C15" [C16r3]="C16"
 [C17r3]="C17" [C18r3]="C18 C06" [C19r3]="C19" [C20r3]="C20 C15"
 [C03r4]="C13" [C09r4]="C09" [C10r4]="C10" [C11r4]="C11" [C14r4]="C16" [C16r4]="C16" [C20r4]="C20"
)
echo "" >> seeded/RESULTS.md
echo "## run $(date -u '+%Y-%m-%d %H:%M:%S') UTC, repo HEAD $(git -C /repo rev-parse --short HEAD), verif HEAD $(git rev-parse --short HEAD)" >> seeded/RESULTS.md
echo "" >> seeded/RESULTS.md
echo "| seed | check | exit | first identity |" >> seeded/RESULTS.md
echo "|---|---|---|---|" >> seeded/RESULTS.md
declare -A REVERTS=( [revert_fix_membership_root]="C05 C07" [revert_fix_membership_path]="C08" )
for m in "${!REVERTS[@]}"; do
  [ -z "$(git -C /repo status --porcelain)" ] || { echo "/repo not clean"; exit 2; }
  git -C /repo apply /verif/mutants/$m.diff 2>/dev/null || { echo "| $m | - | - | PATCH DOES NOT APPLY |" >> seeded/RESULTS.md; continue; }
  for c in ${REVERTS[$m]}; do
    cp evidence/$c.json /tmp/ev_$c.json 2>/dev/null
    out=$(bin/check $c --tier quick 2>&1); rc=$?
    first=$(echo "$out" | grep -m1 "identity:" | sed 's/^ *identity: //' | cut -c1-140)
    echo "| $m | $c | $rc | $first |" >> seeded/RESULTS.md
    echo "$m $c rc=$rc $first"
    cp /tmp/ev_$c.json evidence/$c.json 2>/dev/null
  done
  git -C /repo checkout -- .
done
for id in $(ls seeded | grep -v RESULTS | sort); do
  checks="${CHECKS[$id]}"
  [ -z "$checks" ] && { echo "| $id | - | - | not in regression (neutralised by a fix) |" >> seeded/RESULTS.md; continue; }
  [ -z "$(git -C /repo status --porcelain)" ] || { echo "/repo not clean"; exit 2; }
  git -C /repo apply /verif/seeded/$id/patch.diff 2>/dev/null || { echo "| $id | - | - | PATCH DOES NOT APPLY |" >> seeded/RESULTS.md; continue; }
  for c in $checks; do
    cp evidence/$c.json /tmp/ev_$c.json 2>/dev/null
    out=$(bin/check $c --tier quick 2>&1); rc=$?
    first=$(echo "$out" | grep -m1 "identity:" | sed 's/^ *identity: //' | cut -c1-140)
    echo "| $id | $c | $rc | $first |" >> seeded/RESULTS.md
    echo "$id $c rc=$rc $first"
    cp /tmp/ev_$c.json evidence/$c.json 2>/dev/null
  done
  git -C /repo checkout -- .
done
