#!/bin/bash
# usage: confirm_on_head.sh <seed-id> — re-validate a stored seed against the CURRENT /repo HEAD in a scratch worktree:
# demo must fail with the patch and pass without; (suite not re-run here)
ID="$1"; S=/verif/seeded/$ID; W=/tmp/seedhead/$ID
mkdir -p /tmp/seedhead; git -C /repo worktree remove --force $W 2>/dev/null
git -C /repo worktree add -q --detach $W HEAD || exit 2
cd $W; export CARGO_TARGET_DIR=/tmp/seedhead/target CARGO_NET_OFFLINE=true
DEMO_PATH=$(python3 -c "import json;print(json.load(open('$S/meta.json'))['demo_path'])" | sed "s#^/tmp/seed/$ID/##")
DEMO_CMD=$(python3 -c "import json;print(json.load(open('$S/meta.json'))['demo_cmd'])" | sed "s#/tmp/seed/$ID#$W#g")
mkdir -p $(dirname $DEMO_PATH); cp $S/demo.rs $DEMO_PATH
if ! git apply -3 $S/patch.diff 2>/tmp/seedhead/$ID.apply.err; then echo "$ID: PATCH DOES NOT APPLY to HEAD"; cat /tmp/seedhead/$ID.apply.err | head -5; git -C /repo worktree remove --force $W; exit 1; fi
( eval "$DEMO_CMD" ) > /tmp/seedhead/$ID.with.log 2>&1; A=$?
git diff HEAD -- . ':!'"$DEMO_PATH" > /tmp/seedhead/$ID.rebased.diff
git checkout -q -- . ; git reset -q
( eval "$DEMO_CMD" ) > /tmp/seedhead/$ID.without.log 2>&1; B=$?
echo "$ID: demo_with_patch_exit=$A demo_without_patch_exit=$B (want nonzero / 0)"
git -C /repo worktree remove --force $W
