//! Oracles shared by many checks: ask a (real) directory for a proof, verify it with the real
//! client verifier, and compare the verified result with DirModel ground truth.

use crate::common::*;
use crate::gate::{GateDb, GateVrf};
use crate::model::*;
use akd::client::{key_history_verify, lookup_verify};
use akd::directory::ReadOnlyDirectory;
use akd::errors::AkdError;
use akd::{AkdLabel, AppendOnlyProof, EpochHash, HistoryParams, HistoryProof, HistoryVerificationParams, LookupProof};
use async_trait::async_trait;
use serde_json::{json, Value};

pub type RoDir<TC> = ReadOnlyDirectory<TC, GateDb, GateVrf>;

#[async_trait]
pub trait Reader<TC: ModelCfg>: Send + Sync {
    async fn r_lookup(&self, l: AkdLabel) -> Result<(LookupProof, EpochHash), AkdError>;
    async fn r_batch_lookup(&self, l: &[AkdLabel]) -> Result<(Vec<LookupProof>, EpochHash), AkdError>;
    async fn r_history(&self, l: &AkdLabel, p: HistoryParams) -> Result<(HistoryProof, EpochHash), AkdError>;
    async fn r_audit(&self, s: u64, e: u64) -> Result<AppendOnlyProof, AkdError>;
    async fn r_epoch_hash(&self) -> Result<EpochHash, AkdError>;
}

#[async_trait]
impl<TC: ModelCfg> Reader<TC> for Dir<TC> {
    async fn r_lookup(&self, l: AkdLabel) -> Result<(LookupProof, EpochHash), AkdError> {
        self.lookup(l).await
    }
    async fn r_batch_lookup(&self, l: &[AkdLabel]) -> Result<(Vec<LookupProof>, EpochHash), AkdError> {
        self.batch_lookup(l).await
    }
    async fn r_history(&self, l: &AkdLabel, p: HistoryParams) -> Result<(HistoryProof, EpochHash), AkdError> {
        self.key_history(l, p).await
    }
    async fn r_audit(&self, s: u64, e: u64) -> Result<AppendOnlyProof, AkdError> {
        self.audit(s, e).await
    }
    async fn r_epoch_hash(&self) -> Result<EpochHash, AkdError> {
        self.get_epoch_hash().await
    }
}

#[async_trait]
impl<TC: ModelCfg> Reader<TC> for RoDir<TC> {
    async fn r_lookup(&self, l: AkdLabel) -> Result<(LookupProof, EpochHash), AkdError> {
        self.lookup(l).await
    }
    async fn r_batch_lookup(&self, l: &[AkdLabel]) -> Result<(Vec<LookupProof>, EpochHash), AkdError> {
        self.batch_lookup(l).await
    }
    async fn r_history(&self, l: &AkdLabel, p: HistoryParams) -> Result<(HistoryProof, EpochHash), AkdError> {
        self.key_history(l, p).await
    }
    async fn r_audit(&self, s: u64, e: u64) -> Result<AppendOnlyProof, AkdError> {
        self.audit(s, e).await
    }
    async fn r_epoch_hash(&self) -> Result<EpochHash, AkdError> {
        self.get_epoch_hash().await
    }
}

pub fn pk_bytes() -> Vec<u8> {
    thread_local! { static PK: Vec<u8> = keymat(&test_key()).pk.as_bytes().to_vec(); }
    PK.with(|p| p.clone())
}

pub struct Bad {
    pub kind: String,
    pub detail: Value,
}
fn bad(kind: &str, detail: Value) -> Bad {
    Bad { kind: kind.to_string(), detail }
}

pub type VR = (Vec<u8>, u64, u64); // value, version, epoch

pub fn verify_lookup<TC: ModelCfg>(label: &[u8], proof: LookupProof, eh: &EpochHash) -> Result<VR, String> {
    lookup_verify::<TC>(&pk_bytes(), eh.1, eh.0, AkdLabel(label.to_vec()), proof)
        .map(|r| (r.value.0, r.version, r.epoch))
        .map_err(|e| format!("{e:?}"))
}

pub fn verify_history<TC: ModelCfg>(
    label: &[u8],
    proof: HistoryProof,
    eh: &EpochHash,
    vp: HistoryVerificationParams,
) -> Result<Vec<VR>, String> {
    key_history_verify::<TC>(&pk_bytes(), eh.1, eh.0, AkdLabel(label.to_vec()), proof, vp)
        .map(|rs| rs.into_iter().map(|r| (r.value.0, r.version, r.epoch)).collect())
        .map_err(|e| format!("{e:?}"))
}

/// The (epoch, hash) pair must be one the directory really published; returns the model as of it.
pub fn published_model<'a>(eh: &EpochHash, model: &DirModel, published: &[D32]) -> Result<DirModel, Bad> {
    let e = eh.0 as usize;
    if e >= published.len() || eh.0 > model.epoch {
        return Err(bad("epoch_not_published", json!({"epoch": eh.0, "latest": model.epoch})));
    }
    if published[e] != eh.1 {
        return Err(bad(
            "hash_mislabelled",
            json!({"epoch": eh.0, "hash": hex::encode(eh.1), "published": hex::encode(published[e])}),
        ));
    }
    Ok(model.as_of(eh.0))
}

/// lookup + verify + compare with ground truth at the epoch the answer names.
/// `require_epoch`: Some(e) demands that the answer is served at exactly epoch e.
pub async fn check_lookup<TC: ModelCfg, R: Reader<TC>>(
    r: &R,
    label: &[u8],
    model: &DirModel,
    published: &[D32],
    require_epoch: Option<u64>,
) -> Result<Option<(u64, VR)>, Bad> {
    match r.r_lookup(AkdLabel(label.to_vec())).await {
        Err(e) => {
            // an error is acceptable only if the label is unpublished at the latest epoch the
            // reader may be at; callers that allow stale readers handle Err themselves
            let known_at_required = model.as_of(require_epoch.unwrap_or(model.epoch)).latest(label).is_some();
            if known_at_required && require_epoch.is_some() {
                Err(bad("lookup_failed_for_published_label", json!({"label": show_bytes(label), "error": format!("{e:?}")})))
            } else {
                Ok(None)
            }
        }
        Ok((proof, eh)) => {
            if let Some(req) = require_epoch {
                if eh.0 != req {
                    return Err(bad("lookup_wrong_epoch", json!({"label": show_bytes(label), "answered_at": eh.0, "expected": req})));
                }
            }
            let m = published_model(&eh, model, published)?;
            let truth = m.latest(label);
            match verify_lookup::<TC>(label, proof, &eh) {
                Err(e) => Err(bad("lookup_proof_does_not_verify", json!({"label": show_bytes(label), "epoch": eh.0, "error": e}))),
                Ok(vr) => match truth {
                    None => Err(bad("lookup_proof_for_unpublished_label", json!({"label": show_bytes(label), "epoch": eh.0}))),
                    Some(t) => {
                        if t != vr {
                            Err(bad(
                                "lookup_wrong_result",
                                json!({"label": show_bytes(label), "epoch": eh.0, "got": show_vr(&vr), "truth": show_vr(&t)}),
                            ))
                        } else {
                            Ok(Some((eh.0, vr)))
                        }
                    }
                },
            }
        }
    }
}

pub fn show_vr(v: &VR) -> Value {
    json!({"value": show_bytes(&v.0), "version": v.1, "epoch": v.2})
}

pub fn hp_name(p: &HistoryParams) -> String {
    match p {
        HistoryParams::Complete => "Complete".into(),
        HistoryParams::MostRecent(n) => format!("MostRecent({n})"),
    }
}

pub async fn check_history<TC: ModelCfg, R: Reader<TC>>(
    r: &R,
    label: &[u8],
    params: HistoryParams,
    model: &DirModel,
    published: &[D32],
    require_epoch: Option<u64>,
) -> Result<Option<(u64, Vec<VR>)>, Bad> {
    match r.r_history(&AkdLabel(label.to_vec()), params).await {
        Err(e) => {
            let known = model.as_of(require_epoch.unwrap_or(model.epoch)).latest(label).is_some();
            if known && require_epoch.is_some() {
                Err(bad(
                    "history_failed_for_published_label",
                    json!({"label": show_bytes(label), "params": hp_name(&params), "error": format!("{e:?}")}),
                ))
            } else {
                Ok(None)
            }
        }
        Ok((proof, eh)) => {
            if let Some(req) = require_epoch {
                if eh.0 != req {
                    return Err(bad("history_wrong_epoch", json!({"label": show_bytes(label), "answered_at": eh.0, "expected": req})));
                }
            }
            let m = published_model(&eh, model, published)?;
            let n = match params {
                HistoryParams::Complete => None,
                HistoryParams::MostRecent(n) => Some(n),
            };
            let truth = m.history(label, n);
            let vp = HistoryVerificationParams::Default { history_params: params };
            match verify_history::<TC>(label, proof, &eh, vp) {
                Err(e) => Err(bad(
                    "history_proof_does_not_verify",
                    json!({"label": show_bytes(label), "params": hp_name(&params), "epoch": eh.0, "error": e}),
                )),
                Ok(list) => match truth {
                    None => Err(bad("history_proof_for_unpublished_label", json!({"label": show_bytes(label), "epoch": eh.0}))),
                    Some(t) => {
                        if t != list {
                            Err(bad(
                                "history_wrong_result",
                                json!({"label": show_bytes(label), "params": hp_name(&params), "epoch": eh.0,
                                       "got": list.iter().map(show_vr).collect::<Vec<_>>(),
                                       "truth": t.iter().map(show_vr).collect::<Vec<_>>()}),
                            ))
                        } else {
                            Ok(Some((eh.0, list)))
                        }
                    }
                },
            }
        }
    }
}

/// audit(s,e) must succeed and verify against the published hashes s..=e
pub async fn check_audit<TC: ModelCfg, R: Reader<TC>>(r: &R, s: u64, e: u64, published: &[D32]) -> Result<usize, Bad> {
    match r.r_audit(s, e).await {
        Err(err) => Err(bad("audit_failed", json!({"start": s, "end": e, "error": format!("{err:?}")}))),
        Ok(proof) => {
            let size: usize = proof.proofs.iter().map(|p| p.inserted.len() + p.unchanged_nodes.len()).sum();
            let hashes: Vec<D32> = published[s as usize..=e as usize].to_vec();
            match akd::auditor::audit_verify::<TC>(hashes, proof).await {
                Ok(()) => Ok(size),
                Err(err) => Err(bad("audit_proof_does_not_verify", json!({"start": s, "end": e, "error": format!("{err:?}")}))),
            }
        }
    }
}

/// The full reader suite: epoch hash, lookups, histories, audits — everything must verify to
/// `model` (the state as of `epoch`) and be served at exactly that epoch.
/// `absent`: labels that must not be served (e.g. first published in an unfinished epoch).
pub async fn reader_suite<TC: ModelCfg, R: Reader<TC>>(
    r: &R,
    model: &DirModel,
    published: &[D32],
    absent: &[Vec<u8>],
    light: bool,
) -> Vec<Bad> {
    let mut bads = vec![];
    let e = model.epoch;
    match r.r_epoch_hash().await {
        Ok(eh) => {
            if eh.0 != e || eh.1 != published[e as usize] {
                bads.push(bad("epoch_hash_wrong", json!({"got": [eh.0, hex::encode(eh.1)], "expected_epoch": e, "expected_hash": hex::encode(published[e as usize])})));
                return bads; // everything else would be noise
            }
        }
        Err(err) => {
            bads.push(bad("epoch_hash_failed", json!({"error": format!("{err:?}")})));
            return bads;
        }
    }
    for l in model.users.keys() {
        if let Err(b) = check_lookup::<TC, _>(r, l, model, published, Some(e)).await {
            bads.push(b);
        }
        let params: &[HistoryParams] = if light {
            &[HistoryParams::Complete, HistoryParams::MostRecent(1)]
        } else {
            &[HistoryParams::Complete, HistoryParams::MostRecent(1), HistoryParams::MostRecent(2)]
        };
        for p in params {
            if let Err(b) = check_history::<TC, _>(r, l, *p, model, published, Some(e)).await {
                bads.push(b);
            }
        }
    }
    // one batched lookup of every published label: same per-label results
    if model.users.len() >= 2 {
        let labels: Vec<Vec<u8>> = model.users.keys().cloned().collect();
        let akd_labels: Vec<AkdLabel> = labels.iter().map(|l| AkdLabel(l.clone())).collect();
        match r.r_batch_lookup(&akd_labels).await {
            Err(err) => bads.push(bad("batch_lookup_failed", json!({"error": format!("{err:?}")}))),
            Ok((proofs, eh)) => {
                if eh.0 != e || eh.1 != published[e as usize] || proofs.len() != labels.len() {
                    bads.push(bad("batch_lookup_wrong_epoch_hash_or_shape", json!({"epoch": eh.0, "proofs": proofs.len()})));
                } else {
                    for (l, p) in labels.iter().zip(proofs.into_iter()) {
                        match verify_lookup::<TC>(l, p, &eh) {
                            Ok(vr) if Some(&vr) == model.latest(l).as_ref() => {}
                            other => bads.push(bad("batch_lookup_wrong_or_unverifiable", json!({"label": show_bytes(l), "got": format!("{other:?}")}))),
                        }
                    }
                }
            }
        }
    }
    for l in absent {
        if model.users.contains_key(l) {
            continue;
        }
        if let Ok((p, eh)) = r.r_lookup(AkdLabel(l.clone())).await {
            let v = verify_lookup::<TC>(l, p, &eh);
            bads.push(bad("unfinished_or_unpublished_label_served", json!({"label": show_bytes(l), "epoch": eh.0, "verifies": v.is_ok()})));
        }
        if let Ok((_, eh)) = r.r_history(&AkdLabel(l.clone()), HistoryParams::Complete).await {
            bads.push(bad("unfinished_or_unpublished_label_history_served", json!({"label": show_bytes(l), "epoch": eh.0})));
        }
    }
    let lo = if light { e.saturating_sub(2) } else { 0 };
    for s in lo..e {
        for t in s + 1..=e {
            if let Err(b) = check_audit::<TC, _>(r, s, t, published).await {
                bads.push(b);
            }
        }
    }
    bads
}

/// Judge one reader answer obtained under concurrency / lag: Err is fine; Ok must name a really
/// published (epoch, hash) and verify against it with ground truth as of that epoch.
/// `min_epoch`: the answer must be served from an epoch at least this new.
pub async fn judge_answer<TC: ModelCfg>(
    op: &crate::conc::Op,
    res: &crate::conc::OpResult,
    model: &DirModel,
    published: &[D32],
    min_epoch: u64,
) -> Result<Option<u64>, Bad> {
    use crate::conc::{Op, OpResult};
    let too_old = |e: u64| -> Result<(), Bad> {
        if e < min_epoch {
            Err(bad("answered_from_epoch_older_than_signalled", json!({"answered_at": e, "min_epoch": min_epoch})))
        } else {
            Ok(())
        }
    };
    match (op, res) {
        (Op::Lookup(l), OpResult::Lookup(r)) => match r {
            Err(_) => Ok(None),
            Ok((proof, eh)) => {
                let m = published_model(eh, model, published)?;
                too_old(eh.0)?;
                match verify_lookup::<TC>(l, proof.clone(), eh) {
                    Err(e) => Err(bad("lookup_proof_does_not_verify", json!({"label": show_bytes(l), "epoch": eh.0, "error": e}))),
                    Ok(vr) => {
                        if Some(&vr) != m.latest(l).as_ref() {
                            Err(bad("lookup_wrong_result", json!({"label": show_bytes(l), "epoch": eh.0, "got": show_vr(&vr), "truth": format!("{:?}", m.latest(l))})))
                        } else {
                            Ok(Some(eh.0))
                        }
                    }
                }
            }
        },
        (Op::BatchLookup(ls), OpResult::BatchLookup(r)) => match r {
            Err(_) => Ok(None),
            Ok((proofs, eh)) => {
                let m = published_model(eh, model, published)?;
                too_old(eh.0)?;
                if proofs.len() != ls.len() {
                    return Err(bad("batch_lookup_wrong_shape", json!({"proofs": proofs.len(), "labels": ls.len()})));
                }
                for (l, p) in ls.iter().zip(proofs.iter()) {
                    match verify_lookup::<TC>(l, p.clone(), eh) {
                        Err(e) => return Err(bad("batch_lookup_proof_does_not_verify", json!({"label": show_bytes(l), "epoch": eh.0, "error": e}))),
                        Ok(vr) => {
                            if Some(&vr) != m.latest(l).as_ref() {
                                return Err(bad("batch_lookup_wrong_result", json!({"label": show_bytes(l), "epoch": eh.0, "got": show_vr(&vr)})));
                            }
                        }
                    }
                }
                Ok(Some(eh.0))
            }
        },
        (Op::History(l, p), OpResult::History(r)) => match r {
            Err(_) => Ok(None),
            Ok((proof, eh)) => {
                let m = published_model(eh, model, published)?;
                too_old(eh.0)?;
                let n = match p {
                    HistoryParams::Complete => None,
                    HistoryParams::MostRecent(n) => Some(*n),
                };
                let vp = HistoryVerificationParams::Default { history_params: *p };
                match verify_history::<TC>(l, proof.clone(), eh, vp) {
                    Err(e) => Err(bad("history_proof_does_not_verify", json!({"label": show_bytes(l), "params": hp_name(p), "epoch": eh.0, "error": e}))),
                    Ok(list) => {
                        if Some(&list) != m.history(l, n).as_ref() {
                            Err(bad("history_wrong_result", json!({"label": show_bytes(l), "params": hp_name(p), "epoch": eh.0, "got": list.iter().map(show_vr).collect::<Vec<_>>()})))
                        } else {
                            Ok(Some(eh.0))
                        }
                    }
                }
            }
        },
        (Op::Audit(s, e), OpResult::Audit(r)) => match r {
            Err(_) => Ok(None),
            Ok(proof) => {
                if *e as usize >= published.len() {
                    return Err(bad("audit_of_unpublished_epoch_served", json!({"start": s, "end": e, "latest_published": published.len() - 1})));
                }
                let hashes: Vec<D32> = published[*s as usize..=*e as usize].to_vec();
                match akd::auditor::audit_verify::<TC>(hashes, proof.clone()).await {
                    Ok(()) => Ok(Some(*e)),
                    Err(err) => Err(bad("audit_proof_does_not_verify", json!({"start": s, "end": e, "error": format!("{err:?}")}))),
                }
            }
        },
        (Op::EpochHash, OpResult::EpochHash(r)) => match r {
            Err(_) => Ok(None),
            Ok(eh) => {
                published_model(eh, model, published)?;
                too_old(eh.0)?;
                Ok(Some(eh.0))
            }
        },
        _ => Ok(None),
    }
}
