//! Virtual monotonic clock: the harness binary defines `clock_gettime`, so std's
//! `Instant::now()` (used by akd's TimedCache) obeys a per-thread virtual time when a worker
//! thread has switched it on. Other threads and other clocks fall through to the kernel.

use std::cell::Cell;

thread_local! {
    static VIRTUAL: Cell<bool> = const { Cell::new(false) };
    static NOW_NS: Cell<i64> = const { Cell::new(0) };
}

const BASE_S: i64 = 1_000_000;

#[no_mangle]
pub unsafe extern "C" fn clock_gettime(clk: libc::clockid_t, ts: *mut libc::timespec) -> libc::c_int {
    if clk == libc::CLOCK_MONOTONIC && VIRTUAL.with(|v| v.get()) {
        let ns = NOW_NS.with(|n| n.get());
        (*ts).tv_sec = BASE_S + ns / 1_000_000_000;
        (*ts).tv_nsec = ns % 1_000_000_000;
        return 0;
    }
    libc::syscall(libc::SYS_clock_gettime, clk, ts) as libc::c_int
}

/// Switch this thread to virtual time (frozen until advanced) starting at 0.
pub fn enable() {
    VIRTUAL.with(|v| v.set(true));
    NOW_NS.with(|n| n.set(0));
}
pub fn disable() {
    VIRTUAL.with(|v| v.set(false));
}
pub fn reset() {
    NOW_NS.with(|n| n.set(0));
}
pub fn advance_ms(ms: u64) {
    NOW_NS.with(|n| n.set(n.get() + ms as i64 * 1_000_000));
}
pub fn now_ms() -> u64 {
    NOW_NS.with(|n| (n.get() / 1_000_000) as u64)
}

/// self-check: std::time::Instant obeys the virtual clock on this thread
pub fn self_check() -> bool {
    enable();
    let a = std::time::Instant::now();
    advance_ms(3_600_000);
    let b = std::time::Instant::now();
    let ok = b.duration_since(a) == std::time::Duration::from_secs(3600);
    reset();
    disable();
    ok
}
