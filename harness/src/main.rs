//! akdmc — model-checking harness for the 20 semantic properties of facebook/akd.
//! Usage: akdmc <ID> --tier quick|thorough [--replay <file>]
#![allow(dead_code, unused_imports, unused_variables)]

mod common;
mod conc;
mod dishonest;
mod explore;
mod gate;
mod model;
mod oracles;
mod props;
mod report;
mod vclock;

pub struct Args {
    pub id: String,
    pub tier: String,
    pub replay: Option<String>,
    pub threads: usize,
}

impl Args {
    pub fn quick(&self) -> bool {
        self.tier == "quick"
    }
}

fn main() {
    let argv: Vec<String> = std::env::args().collect();
    if argv.len() < 2 {
        eprintln!("usage: akdmc <ID> --tier quick|thorough [--replay <file>]");
        std::process::exit(2);
    }
    let mut args = Args {
        id: argv[1].clone(),
        tier: std::env::var("VERIF_TIER").unwrap_or_else(|_| "quick".into()),
        replay: None,
        threads: std::env::var("VERIF_THREADS").ok().and_then(|s| s.parse().ok()).unwrap_or_else(|| {
            std::thread::available_parallelism().map(|n| n.get()).unwrap_or(4).min(16)
        }),
    };
    let mut i = 2;
    while i < argv.len() {
        match argv[i].as_str() {
            "--tier" => {
                args.tier = argv[i + 1].clone();
                i += 2;
            }
            "--replay" => {
                args.replay = Some(argv[i + 1].clone());
                i += 2;
            }
            other => {
                eprintln!("unknown argument {other}");
                std::process::exit(2);
            }
        }
    }
    if args.tier != "quick" && args.tier != "thorough" {
        eprintln!("tier must be quick or thorough");
        std::process::exit(2);
    }
    // resource caps inside the engine: RSS (default 24 GiB) and wall clock (default 6 h); hitting one is a
    // machinery failure (exit 2), never a verdict
    std::thread::spawn(|| {
        let cap_gb: u64 = std::env::var("VERIF_RSS_CAP_GB").ok().and_then(|s| s.parse().ok()).unwrap_or(24);
        let wall_cap_s: u64 = std::env::var("VERIF_WALL_CAP_S").ok().and_then(|s| s.parse().ok()).unwrap_or(6 * 3600);
        let start = std::time::Instant::now();
        loop {
            std::thread::sleep(std::time::Duration::from_millis(1000));
            if let Ok(statm) = std::fs::read_to_string("/proc/self/statm") {
                let rss_pages: u64 = statm.split_whitespace().nth(1).and_then(|x| x.parse().ok()).unwrap_or(0);
                if rss_pages * 4096 > cap_gb << 30 {
                    eprintln!("MACHINERY ERROR: resident set exceeds the {cap_gb} GiB cap");
                    std::process::exit(2);
                }
            }
            if start.elapsed().as_secs() > wall_cap_s {
                eprintln!("MACHINERY ERROR: wall clock cap of {wall_cap_s} s exceeded");
                std::process::exit(2);
            }
        }
    });
    crate::explore::install_panic_hook();
    // a panic anywhere in the harness is a machinery failure (exit 2), never a verdict
    let r = std::panic::catch_unwind(std::panic::AssertUnwindSafe(|| props::dispatch(&args)));
    match r {
        Ok(code) => std::process::exit(code),
        Err(_) => {
            eprintln!("MACHINERY ERROR: harness panicked");
            std::process::exit(2);
        }
    }
}
