//! akdmc — model-checking harness for the 20 semantic properties of facebook/akd.
//! Usage: akdmc <ID> --tier quick|thorough [--replay <file>]
#![allow(dead_code, unused_imports, unused_variables)]

mod common;
mod conc;
mod dishonest;
mod explore;
mod gate;
mod model;
mod oracles;
mod props;
mod report;
mod vclock;

pub struct Args {
    pub id: String,
    pub tier: String,
    pub replay: Option<String>,
    pub threads: usize,
}

impl Args {
    pub fn quick(&self) -> bool {
        self.tier == "quick"
    }
}

fn main() {
    let argv: Vec<String> = std::env::args().collect();
    if argv.len() < 2 {
        eprintln!("usage: akdmc <ID> --tier quick|thorough [--replay <file>]");
        std::process::exit(2);
    }
    let mut args = Args {
        id: argv[1].clone(),
        tier: std::env::var("VERIF_TIER").unwrap_or_else(|_| "quick".into()),
        replay: None,
        threads: std::env::var("VERIF_THREADS").ok().and_then(|s| s.parse().ok()).unwrap_or_else(|| {
            std::thread::available_parallelism().map(|n| n.get()).unwrap_or(4).min(16)
        }),
    };
    let mut i = 2;
    while i < argv.len() {
        match argv[i].as_str() {
            "--tier" => {
                args.tier = argv[i + 1].clone();
                i += 2;
            }
            "--replay" => {
                args.replay = Some(argv[i + 1].clone());
                i += 2;
            }
            other => {
                eprintln!("unknown argument {other}");
                std::process::exit(2);
            }
        }
    }
    if args.tier != "quick" && args.tier != "thorough" {
        eprintln!("tier must be quick or thorough");
        std::process::exit(2);
    }
    // a panic anywhere in the harness is a machinery failure (exit 2), never a verdict
    let r = std::panic::catch_unwind(std::panic::AssertUnwindSafe(|| props::dispatch(&args)));
    match r {
        Ok(code) => std::process::exit(code),
        Err(_) => {
            eprintln!("MACHINERY ERROR: harness panicked");
            std::process::exit(2);
        }
    }
}
