//! E2 scenarios: real Directory / ReadOnlyDirectory operations as tokio tasks on one
//! current-thread runtime under the controlled scheduler (gate.rs).

use crate::common::*;
use crate::explore::Chooser;
use crate::gate::*;
use crate::model::*;
use crate::oracles::*;
use akd::append_only_zks::AzksParallelismConfig;
use akd::directory::Directory;
use akd::errors::AkdError;
use akd::storage::StorageManager;
use akd::{AkdLabel, AppendOnlyProof, EpochHash, HistoryParams, HistoryProof, LookupProof};
use std::sync::Arc;

#[derive(Clone, Debug)]
pub enum Op {
    Publish(Batch),
    Lookup(Vec<u8>),
    BatchLookup(Vec<Vec<u8>>),
    History(Vec<u8>, HistoryParams),
    Audit(u64, u64),
    EpochHash,
}

pub fn show_op(op: &Op) -> String {
    match op {
        Op::Publish(b) => format!("publish{}", show_batch(b)),
        Op::Lookup(l) => format!("lookup({})", show_bytes(l)),
        Op::BatchLookup(ls) => format!("batch_lookup({})", ls.iter().map(|l| show_bytes(l)).collect::<Vec<_>>().join(",")),
        Op::History(l, p) => format!("history({},{})", show_bytes(l), hp_name(p)),
        Op::Audit(s, e) => format!("audit({s},{e})"),
        Op::EpochHash => "get_epoch_hash".into(),
    }
}

pub enum OpResult {
    Publish(Result<EpochHash, AkdError>),
    Lookup(Result<(LookupProof, EpochHash), AkdError>),
    BatchLookup(Result<(Vec<LookupProof>, EpochHash), AkdError>),
    History(Result<(HistoryProof, EpochHash), AkdError>),
    Audit(Result<AppendOnlyProof, AkdError>),
    EpochHash(Result<EpochHash, AkdError>),
}

#[derive(Clone, Copy, Debug, PartialEq, Eq)]
pub enum Inst {
    /// the writer's own Directory instance
    Writer,
    /// a clone of the writer's instance (shares manager, cache, transaction, cache lock)
    WriterClone,
    /// a ReadOnlyDirectory with its own manager (and cache) over the same database
    ReadOnly,
}

#[derive(Clone, Debug)]
pub struct Actor {
    pub name: String,
    pub inst: Inst,
    pub ops: Vec<Op>,
}

#[derive(Clone, Debug)]
pub struct Scenario {
    pub initial: Vec<Batch>,
    pub actors: Vec<Actor>,
    pub writer_cache: CacheCfg,
    pub reader_cache: CacheCfg,
    pub par: AzksParallelismConfig,
    /// ops run on the ReadOnly instance before the controlled phase (cache warm-up)
    pub reader_warmup: Vec<Op>,
    /// publishes applied by the writer AFTER warm-up and BEFORE the controlled phase (reader lag)
    pub lag_publishes: Vec<Batch>,
    /// spawn poll_for_azks_changes on the ReadOnly instance (period 1 virtual second)
    pub poller: bool,
    pub gate_vrf: bool,
    /// delivery of every database response is a scheduling point of its own
    pub post_gates: bool,
    pub faults: u32,
    pub faultable: fn(&OpDesc) -> bool,
    /// empty the writer's cache after the set-up publishes (cold cache at the start of the controlled phase)
    pub cold_writer_cache: bool,
}

impl Scenario {
    pub fn describe(&self) -> String {
        format!(
            "initial=[{}] lag=[{}] warmup=[{}] wcache={:?} rcache={:?} poller={} response_gates={} actors: {}",
            show_history(&self.initial),
            show_history(&self.lag_publishes),
            self.reader_warmup.iter().map(show_op).collect::<Vec<_>>().join(","),
            self.writer_cache,
            self.reader_cache,
            self.poller,
            self.post_gates,
            self.actors
                .iter()
                .map(|a| format!("{}@{:?}[{}]", a.name, a.inst, a.ops.iter().map(show_op).collect::<Vec<_>>().join(";")))
                .collect::<Vec<_>>()
                .join(" || ")
        )
    }
}

pub struct RunOut {
    pub db: GateDb,
    pub vrf: GateVrf,
    pub writer_mgr: StorageManager<GateDb>,
    /// results[actor][op]; an op with virtual start/end notification counters
    pub results: Vec<Vec<(OpResult, u64, u64)>>,
    pub steps: Vec<Step>,
    pub task_names: Vec<String>,
    pub horizon: bool,
    pub idle_taken: u32,
    /// epochs signalled by the poller, as notification counter values -> storage epoch at that time
    pub poll_notifications: Vec<u64>,
    pub leftover_parked: usize,
}

pub async fn do_op<TC: ModelCfg, R: Reader<TC>>(r: &R, w: Option<&Dir<TC>>, op: &Op) -> OpResult {
    match op {
        Op::Publish(b) => OpResult::Publish(match w {
            Some(d) => d.publish(to_akd_batch(b)).await,
            None => Err(AkdError::Directory(akd::errors::DirectoryError::ReadOnlyDirectory("harness: publish on reader".into()))),
        }),
        Op::Lookup(l) => OpResult::Lookup(r.r_lookup(AkdLabel(l.clone())).await),
        Op::BatchLookup(ls) => {
            let v: Vec<AkdLabel> = ls.iter().map(|l| AkdLabel(l.clone())).collect();
            OpResult::BatchLookup(r.r_batch_lookup(&v).await)
        }
        Op::History(l, p) => OpResult::History(r.r_history(&AkdLabel(l.clone()), *p).await),
        Op::Audit(s, e) => OpResult::Audit(r.r_audit(*s, *e).await),
        Op::EpochHash => OpResult::EpochHash(r.r_epoch_hash().await),
    }
}

/// Run one execution of the scenario under the scheduler driven by `chooser`.
pub fn run_scenario<TC: ModelCfg>(sc: &Scenario, chooser: &mut Chooser) -> RunOut {
    let ch = std::mem::replace(chooser, Chooser::default_run());
    let sched = Sched::new(ch, sc.gate_vrf);
    sched.post_gates.store(sc.post_gates, std::sync::atomic::Ordering::SeqCst);
    {
        let mut st = sched.st.lock().unwrap();
        st.mode = Mode::Free;
        st.faults_left = sc.faults;
        st.faultable = sc.faultable;
        st.offer_idle = false;
    }
    let rt = controlled_runtime(sched.clone());
    let out = rt.block_on(async {
        let db = GateDb::new();
        *db.ctl.sched.lock().unwrap() = Some(sched.clone());
        let vrf = GateVrf::new();
        *vrf.sched.lock().unwrap() = Some(sched.clone());
        let writer_mgr = manager(&db, sc.writer_cache);
        let writer: Dir<TC> = Directory::<TC, _, _>::new(writer_mgr.clone(), vrf.clone(), sc.par).await.expect("Directory::new");
        for b in &sc.initial {
            writer.publish(to_akd_batch(b)).await.expect("initial publish");
        }
        let needs_reader = sc.poller || !sc.reader_warmup.is_empty() || sc.actors.iter().any(|a| a.inst == Inst::ReadOnly);
        let reader: Option<RoDir<TC>> = if needs_reader {
            Some(RoDir::<TC>::new(manager(&db, sc.reader_cache), vrf.clone(), sc.par).await.expect("ReadOnlyDirectory::new"))
        } else {
            None
        };
        if let Some(r) = &reader {
            for op in &sc.reader_warmup {
                let _ = do_op::<TC, _>(r, None, op).await;
            }
        }
        for b in &sc.lag_publishes {
            writer.publish(to_akd_batch(b)).await.expect("lag publish");
        }
        if sc.cold_writer_cache {
            writer_mgr.flush_cache().await;
        }
        // ---- controlled phase
        let notif = Arc::new(std::sync::atomic::AtomicU64::new(0));
        let notif_log = Arc::new(std::sync::Mutex::new(Vec::<u64>::new()));
        let mut poll_handle = None;
        let mut notif_handle = None;
        {
            let mut st = sched.st.lock().unwrap();
            st.mode = Mode::Controlled;
            st.offer_idle = sc.poller;
        }
        if sc.poller {
            let r = reader.clone().unwrap();
            let (tx, mut rx) = tokio::sync::mpsc::channel::<()>(16);
            let s2 = sched.clone();
            poll_handle = Some(tokio::spawn(async move {
                s2.name_task("poller");
                let _ = r.poll_for_azks_changes(tokio::time::Duration::from_secs(1), Some(tx)).await;
            }));
            let n2 = notif.clone();
            let nl = notif_log.clone();
            let dbi = db.inner.clone();
            notif_handle = Some(tokio::spawn(async move {
                while rx.recv().await.is_some() {
                    // which epoch does storage hold at the moment of the notification?
                    use akd::storage::Database;
                    let e = match dbi.get::<akd::Azks>(&akd::append_only_zks::DEFAULT_AZKS_KEY).await {
                        Ok(akd::storage::types::DbRecord::Azks(a)) => a.latest_epoch,
                        _ => 0,
                    };
                    nl.lock().unwrap().push(e);
                    n2.fetch_add(1, std::sync::atomic::Ordering::SeqCst);
                }
            }));
        }
        let mut handles = vec![];
        for a in sc.actors.iter().cloned() {
            let s2 = sched.clone();
            let w = writer.clone();
            let r = reader.clone();
            let notif = notif.clone();
            handles.push(tokio::spawn(async move {
                s2.name_task(&a.name);
                // synthetic gate: which actor starts first is a scheduler choice
                let _ = s2.park(OpDesc { kind: "start", detail: String::new(), is_write: false, is_commit: false }).await;
                let mut res = vec![];
                for op in &a.ops {
                    let n0 = notif.load(std::sync::atomic::Ordering::SeqCst);
                    let out = match a.inst {
                        Inst::Writer | Inst::WriterClone => do_op::<TC, _>(&w, Some(&w), op).await,
                        Inst::ReadOnly => do_op::<TC, _>(r.as_ref().unwrap(), None, op).await,
                    };
                    let n1 = notif.load(std::sync::atomic::Ordering::SeqCst);
                    res.push((out, n0, n1));
                }
                res
            }));
        }
        let mut results = vec![];
        let mut horizon = false;
        for h in handles {
            match tokio::time::timeout(tokio::time::Duration::from_secs(if sc.poller { 30 } else { 3600 }), h).await {
                Ok(Ok(r)) => results.push(r),
                Ok(Err(e)) => {
                    eprintln!("MACHINERY ERROR: actor task panicked: {e}");
                    std::process::exit(2);
                }
                Err(_) => {
                    horizon = true;
                    results.push(vec![]);
                }
            }
        }
        if let Some(h) = poll_handle {
            h.abort();
            let _ = h.await;
        }
        if let Some(h) = notif_handle {
            h.abort();
            let _ = h.await;
        }
        let leftover = sched.parked_count();
        if !horizon {
            sched.drain().await;
        } else {
            sched.set_free();
        }
        let poll_notifications = notif_log.lock().unwrap().clone();
        RunOut {
            db,
            vrf,
            writer_mgr,
            results,
            steps: vec![],
            task_names: vec![],
            horizon,
            idle_taken: 0,
            poll_notifications,
            leftover_parked: leftover,
        }
    });
    drop(rt);
    let mut out = out;
    {
        let mut st = sched.st.lock().unwrap();
        out.steps = std::mem::take(&mut st.steps);
        out.task_names = st.task_names.clone();
        out.idle_taken = st.idle_taken;
        *chooser = std::mem::replace(&mut st.chooser, Chooser::default_run());
    }
    *out.db.ctl.sched.lock().unwrap() = None;
    *out.vrf.sched.lock().unwrap() = None;
    out
}

pub fn show_steps(out: &RunOut) -> Vec<String> {
    out.steps
        .iter()
        .map(|s| {
            format!(
                "{}{} {} {}{}",
                if s.preempt { "*" } else { " " },
                out.task_names.get(s.task).cloned().unwrap_or(format!("t{}", s.task)),
                s.desc.kind,
                s.desc.detail,
                if s.answer == Answer::Fail { "  <-- FAIL" } else { "" }
            )
        })
        .collect()
}
