//! Shared helpers: directory construction, real VRF labels (memoised), model leaves,
//! the publish-history walker used by the sequential properties.

use crate::gate::{GateDb, GateVrf, TEST_KEY_HEX};
use crate::model::*;
use akd::append_only_zks::AzksParallelismConfig;
use akd::directory::Directory;
use akd::ecvrf::{VRFExpandedPrivateKey, VRFKeyStorage, VRFPrivateKey, VRFPublicKey};
use akd::storage::StorageManager;
use akd::{AkdLabel, AkdValue, NodeLabel, VersionFreshness};
use std::collections::HashMap;
use std::future::Future;
use std::pin::Pin;
use std::sync::{Mutex, OnceLock};
use std::time::Duration;

pub type Dir<TC> = Directory<TC, GateDb, GateVrf>;
pub type Batch = Vec<(Vec<u8>, Vec<u8>)>;

#[derive(Clone, Copy, Debug, PartialEq, Eq)]
pub enum CacheCfg {
    None,
    Default,
    /// lifetime ms, memory limit bytes, clean frequency ms
    Custom(u64, Option<usize>, u64),
}

pub fn manager(db: &GateDb, cache: CacheCfg) -> StorageManager<GateDb> {
    match cache {
        CacheCfg::None => StorageManager::new_no_cache(db.clone()),
        CacheCfg::Default => StorageManager::new(db.clone(), None, None, None),
        CacheCfg::Custom(life, limit, clean) => StorageManager::new(
            db.clone(),
            Some(Duration::from_millis(life)),
            limit,
            Some(Duration::from_millis(clean)),
        ),
    }
}

pub async fn new_dir<TC: ModelCfg>(db: &GateDb, vrf: &GateVrf, cache: CacheCfg, par: AzksParallelismConfig) -> Dir<TC> {
    Directory::<TC, _, _>::new(manager(db, cache), vrf.clone(), par).await.expect("Directory::new")
}

pub fn test_key() -> Vec<u8> {
    hex::decode(TEST_KEY_HEX).unwrap()
}

pub struct KeyMat {
    pub raw: Vec<u8>,
    pub expanded: VRFExpandedPrivateKey,
    pub sk: VRFPrivateKey,
    pub pk: VRFPublicKey,
}

pub fn keymat(raw: &[u8]) -> KeyMat {
    let sk = VRFPrivateKey::try_from(raw).expect("key");
    let expanded = VRFExpandedPrivateKey::from(&sk);
    let pk = VRFPublicKey::from(&sk);
    KeyMat { raw: raw.to_vec(), expanded, sk, pk }
}

fn label_cache() -> &'static Mutex<HashMap<(String, Vec<u8>, bool, u64), NodeLabel>> {
    static C: OnceLock<Mutex<HashMap<(String, Vec<u8>, bool, u64), NodeLabel>>> = OnceLock::new();
    C.get_or_init(|| Mutex::new(HashMap::new()))
}

/// Real VRF node label under the hard-coded test key (memoised; binding is C18's subject).
pub fn node_label<TC: ModelCfg>(label: &[u8], fresh: bool, version: u64) -> NodeLabel {
    let k = (TC::NAME.to_string(), label.to_vec(), fresh, version);
    if let Some(v) = label_cache().lock().unwrap().get(&k) {
        return *v;
    }
    thread_local! {
        static KM: KeyMat = keymat(&test_key());
    }
    let nl = KM.with(|km| {
        <GateVrf as VRFKeyStorage>::get_node_label_with_expanded_key::<TC>(
            &km.expanded,
            &km.pk,
            &AkdLabel(label.to_vec()),
            if fresh { VersionFreshness::Fresh } else { VersionFreshness::Stale },
            version,
        )
    });
    label_cache().lock().unwrap().insert(k, nl);
    nl
}

pub fn nl_bits(nl: &NodeLabel) -> Bits {
    Bits::from_bytes(&nl.label_val, nl.label_len)
}
pub fn bits_nl(b: &Bits) -> NodeLabel {
    let (v, l) = b.to_bytes();
    NodeLabel::new(v, l)
}

pub fn commitment_key<TC: ModelCfg>() -> D32 {
    TC::m_hash(&test_key())
}

/// the leaves the specification says the tree holds for this directory state
pub fn model_leaves<TC: ModelCfg>(m: &DirModel) -> Vec<MLeaf> {
    let ck = commitment_key::<TC>();
    m.leaf_specs()
        .into_iter()
        .map(|(label, fresh, version, epoch, value)| {
            let nl = node_label::<TC>(&label, fresh, version);
            let commitment = if fresh {
                m_commitment::<TC>(&ck, &raw_label(&nl.label_val, nl.label_len), version, value.as_ref().unwrap())
            } else {
                TC::m_stale_value()
            };
            MLeaf { label: nl_bits(&nl), commitment, epoch }
        })
        .collect()
}

pub fn model_root<TC: ModelCfg>(m: &DirModel) -> (D32, u64) {
    let t = trie::<TC>(&model_leaves::<TC>(m));
    (t.root_hash, t.num_nodes)
}

pub fn to_akd_batch(b: &Batch) -> Vec<(AkdLabel, AkdValue)> {
    b.iter().map(|(l, v)| (AkdLabel(l.clone()), AkdValue(v.clone()))).collect()
}

pub fn show_batch(b: &Batch) -> String {
    let parts: Vec<String> = b
        .iter()
        .map(|(l, v)| format!("{}={}", show_bytes(l), show_bytes(v)))
        .collect();
    format!("{{{}}}", parts.join(","))
}
pub fn show_bytes(b: &[u8]) -> String {
    if b.len() > 12 {
        format!("<{}B:{}>", b.len(), hex::encode(&b[..4]))
    } else if b.iter().all(|c| c.is_ascii_graphic()) {
        String::from_utf8_lossy(b).to_string()
    } else {
        format!("0x{}", hex::encode(b))
    }
}
pub fn show_history(h: &[Batch]) -> String {
    h.iter().map(show_batch).collect::<Vec<_>>().join(" ; ")
}

// -----------------------------------------------------------------------------------------
// Label alphabet: chosen per configuration so that node labels collide on leading bits

pub struct Alphabet {
    pub labels: Vec<Vec<u8>>,
    pub note: String,
}

fn lcp_len(a: &NodeLabel, b: &NodeLabel) -> usize {
    nl_bits(a).lcp(&nl_bits(b)).len()
}

/// Deterministic search over candidate strings "u0".."u399" for three labels whose fresh/stale
/// node labels (versions 1..3) share long prefixes — "keys forced to collide": deep splits and
/// node decompression across a byte boundary occur in 3-label trees.
pub fn alphabet<TC: ModelCfg>() -> &'static Alphabet {
    static W: OnceLock<Alphabet> = OnceLock::new();
    static E: OnceLock<Alphabet> = OnceLock::new();
    let cell = if TC::NAME == "whatsapp_v1" { &W } else { &E };
    cell.get_or_init(|| {
        let cands: Vec<Vec<u8>> = (0..400).map(|i| format!("u{i}").into_bytes()).collect();
        let f1: Vec<NodeLabel> = cands.iter().map(|c| node_label::<TC>(c, true, 1)).collect();
        // a, b: fresh(a,1) and fresh(b,1) share the most leading bits
        let mut best = (0usize, 0usize, 0usize);
        for i in 0..cands.len() {
            for j in i + 1..cands.len() {
                let l = lcp_len(&f1[i], &f1[j]);
                if l > best.0 {
                    best = (l, i, j);
                }
            }
        }
        let (l_ab, a, b) = best;
        // c: fresh(c,1) shares the most bits with stale(a,1) or fresh(a,2)
        let sa1 = node_label::<TC>(&cands[a], false, 1);
        let fa2 = node_label::<TC>(&cands[a], true, 2);
        let mut bestc = (0usize, 0usize);
        for (k, fk) in f1.iter().enumerate() {
            if k == a || k == b {
                continue;
            }
            let l = lcp_len(fk, &sa1).max(lcp_len(fk, &fa2));
            if l > bestc.0 {
                bestc = (l, k);
            }
        }
        Alphabet {
            labels: vec![cands[a].clone(), cands[b].clone(), cands[bestc.1].clone()],
            note: format!(
                "labels {} {} {}: fresh(a,1)/fresh(b,1) share {} bits; fresh(c,1) shares {} bits with stale(a,1)/fresh(a,2)",
                String::from_utf8_lossy(&cands[a]),
                String::from_utf8_lossy(&cands[b]),
                String::from_utf8_lossy(&cands[bestc.1]),
                l_ab,
                bestc.0
            ),
        }
    })
}

/// "Tree-shape" alphabets: four labels p,q,r,s whose version-1 leaves force the node-decompression
/// case of the insertion with a simultaneous insertion below the pushed-down node: fresh(p,1) and
/// fresh(q,1) share exactly 4 bits (interior node E at depth 4 hanging on a compressed edge),
/// fresh(r,1) shares exactly 2 bits with them (splits the compressed edge above E) and fresh(s,1)
/// shares at least 5 bits with fresh(p,1) (lands below E and splits again). `orient` = third bit of
/// fresh(p,1): whether E becomes the left (0) or right (1) child of the new interior node. Searched
/// deterministically over candidate names "t0".."t7999".
pub fn shape_alphabet<TC: ModelCfg>(orient: usize) -> &'static Alphabet {
    static W: [OnceLock<Alphabet>; 2] = [OnceLock::new(), OnceLock::new()];
    static E: [OnceLock<Alphabet>; 2] = [OnceLock::new(), OnceLock::new()];
    let cell = if TC::NAME == "whatsapp_v1" { &W[orient] } else { &E[orient] };
    cell.get_or_init(|| {
        let cands: Vec<Vec<u8>> = (0..8000).map(|i| format!("t{i}").into_bytes()).collect();
        let mut f1: Vec<NodeLabel> = Vec::new();
        let mut p = None;
        let (mut q, mut r, mut s) = (None, None, None);
        for i in 0..cands.len() {
            let f = node_label::<TC>(&cands[i], true, 1);
            f1.push(f);
            let Some(pi) = p else {
                if nl_bits(&f1[i]).0[2] == (orient == 1) {
                    p = Some(i);
                }
                continue;
            };
            let l = lcp_len(&f1[i], &f1[pi]);
            if l == 4 && q.is_none() {
                q = Some(i);
            } else if l == 2 && r.is_none() {
                r = Some(i);
            } else if l >= 5 && s.is_none() {
                s = Some(i);
            }
            if q.is_some() && r.is_some() && s.is_some() {
                break;
            }
        }
        let (p, q, r, s) = (p.expect("shape p"), q.expect("shape q"), r.expect("shape r"), s.expect("shape s"));
        Alphabet {
            labels: vec![cands[p].clone(), cands[q].clone(), cands[r].clone(), cands[s].clone()],
            note: format!(
                "shape labels {} {} {} {}: fresh(p,1)={}; fresh(q/r/s,1) share 4 / 2 / {} bits with it",
                String::from_utf8_lossy(&cands[p]),
                String::from_utf8_lossy(&cands[q]),
                String::from_utf8_lossy(&cands[r]),
                String::from_utf8_lossy(&cands[s]),
                nl_bits(&f1[p]).prefix(8).show(),
                lcp_len(&f1[s], &f1[p])
            ),
        }
    })
}

/// batch alphabet over a shape alphabet (single value)
pub fn shape_batches<TC: ModelCfg>(orient: usize) -> Vec<Batch> {
    batches(&shape_alphabet::<TC>(orient).labels, &[b"x".to_vec()])
}

/// all partial maps from `labels` to `values` (the empty batch first)
pub fn batches(labels: &[Vec<u8>], values: &[Vec<u8>]) -> Vec<Batch> {
    let mut out: Vec<Batch> = vec![vec![]];
    for l in labels {
        let mut next = vec![];
        for b in &out {
            next.push(b.clone());
            for v in values {
                let mut nb = b.clone();
                nb.push((l.clone(), v.clone()));
                next.push(nb);
            }
        }
        out = next;
    }
    out
}

// -----------------------------------------------------------------------------------------
// History walker

pub struct HistCtx<TC: ModelCfg> {
    pub db: GateDb,
    pub vrf: GateVrf,
    pub model: DirModel,
    /// published[e] = root hash the directory returned/reported for epoch e (index 0 = empty tree)
    pub published: Vec<D32>,
    pub history: Vec<Batch>,
    /// what the last publish did according to the model
    pub last: Option<MPublish>,
    pub _tc: std::marker::PhantomData<TC>,
}

pub struct PubEvent<'a, TC: ModelCfg> {
    pub before: &'a HistCtx<TC>,
    pub after_db: &'a GateDb,
    pub dir: &'a Dir<TC>,
    pub batch: &'a Batch,
    pub result: &'a Result<akd::EpochHash, akd::errors::AkdError>,
    pub expect: &'a MPublish,
    pub model_after: &'a DirModel,
}

pub trait HistVisitor<TC: ModelCfg>: Sync {
    /// called at every node of the history prefix tree (after every publish of every history)
    fn visit<'a>(&'a self, ctx: &'a HistCtx<TC>) -> Pin<Box<dyn Future<Output = ()> + 'a>>;
    /// called for every publish: real result vs the model's expectation (C01 judges it).
    fn on_publish<'a>(&'a self, _ev: &'a PubEvent<'a, TC>) -> Pin<Box<dyn Future<Output = ()> + 'a>> {
        Box::pin(async {})
    }
    /// prune: return false to stop extending this history
    fn extend(&self, _ctx: &HistCtx<TC>) -> bool {
        true
    }
}

pub struct WalkCfg {
    pub alphabet: Vec<Batch>,
    pub depth: usize,
    pub cache: CacheCfg,
    pub par: AzksParallelismConfig,
    pub threads: usize,
}

async fn empty_ctx<TC: ModelCfg>() -> HistCtx<TC> {
    let db = GateDb::new();
    let vrf = GateVrf::new();
    let dir = new_dir::<TC>(&db, &vrf, CacheCfg::None, AzksParallelismConfig::disabled()).await;
    let eh = dir.get_epoch_hash().await.expect("epoch hash of empty directory");
    HistCtx { db, vrf, model: DirModel::default(), published: vec![eh.1], history: vec![], last: None, _tc: Default::default() }
}

/// apply one batch to a fork of `ctx`; returns the child context (publish done on a fresh
/// Directory instance over the forked database)
pub async fn step<TC: ModelCfg, V: HistVisitor<TC>>(
    ctx: &HistCtx<TC>,
    batch: &Batch,
    cfg: &WalkCfg,
    v: &V,
) -> HistCtx<TC> {
    let db = ctx.db.fork().await;
    let vrf = ctx.vrf.clone();
    let dir = new_dir::<TC>(&db, &vrf, cfg.cache, cfg.par).await;
    let res = dir.publish(to_akd_batch(batch)).await;
    let mut model = ctx.model.clone();
    let expect = model.publish(batch);
    v.on_publish(&PubEvent { before: ctx, after_db: &db, dir: &dir, batch, result: &res, expect: &expect, model_after: &model })
        .await;
    let mut published = ctx.published.clone();
    if let (Ok(eh), MPublish::NewEpoch(e)) = (&res, &expect) {
        if eh.0 == *e && published.len() as u64 == *e {
            published.push(eh.1);
        }
    }
    // keep `published` aligned with the model even if the implementation misbehaved, so later
    // oracles (which C01 guards) do not index out of range
    while (published.len() as u64) < model.epoch + 1 {
        published.push(model_root::<TC>(&model.as_of(published.len() as u64)).0);
    }
    let mut history = ctx.history.clone();
    history.push(batch.clone());
    HistCtx { db, vrf, model, published, history, last: Some(expect), _tc: Default::default() }
}

fn dfs<'a, TC: ModelCfg, V: HistVisitor<TC>>(
    ctx: HistCtx<TC>,
    cfg: &'a WalkCfg,
    v: &'a V,
) -> Pin<Box<dyn Future<Output = ()> + 'a>> {
    Box::pin(async move {
        v.visit(&ctx).await;
        if ctx.history.len() >= cfg.depth || !v.extend(&ctx) {
            return;
        }
        for b in &cfg.alphabet {
            let child = step(&ctx, b, cfg, v).await;
            dfs(child, cfg, v).await;
        }
    })
}

/// Walk every history of length <= depth over the batch alphabet, visiting every node of the
/// prefix tree. Work is split over `threads` workers by the first `split` batches.
pub fn walk<TC: ModelCfg, V: HistVisitor<TC>>(cfg: &WalkCfg, v: &V) {
    let split = cfg.depth.min(2);
    // enumerate all index sequences of length <= split
    let mut items: Vec<Vec<usize>> = vec![vec![]];
    let mut frontier: Vec<Vec<usize>> = vec![vec![]];
    for _ in 0..split {
        let mut next = vec![];
        for p in &frontier {
            for i in 0..cfg.alphabet.len() {
                let mut q = p.clone();
                q.push(i);
                next.push(q);
            }
        }
        items.extend(next.iter().cloned());
        frontier = next;
    }
    crate::explore::par_for(cfg.threads, &items, |_, item| {
        let rt = crate::gate::plain_runtime();
        rt.block_on(async {
            let mut ctx = empty_ctx::<TC>().await;
            struct Quiet;
            impl<TC2: ModelCfg> HistVisitor<TC2> for Quiet {
                fn visit<'a>(&'a self, _ctx: &'a HistCtx<TC2>) -> Pin<Box<dyn Future<Output = ()> + 'a>> {
                    Box::pin(async {})
                }
            }
            let mut pruned = false;
            for (k, &bi) in item.iter().enumerate() {
                if !v.extend(&ctx) {
                    pruned = true;
                    break;
                }
                // the last step of the replay is judged by the visitor (each edge judged once);
                // earlier steps were judged by the item that ends there
                if k + 1 == item.len() {
                    ctx = step(&ctx, &cfg.alphabet[bi], cfg, v).await;
                } else {
                    ctx = step(&ctx, &cfg.alphabet[bi], cfg, &Quiet).await;
                }
            }
            if pruned {
                return;
            }
            if item.len() < split {
                v.visit(&ctx).await;
            } else {
                dfs(ctx, cfg, v).await;
            }
        });
    });
}

/// A chain history: label `a` updated in every epoch with <= k deviations from the menu
/// {skip this epoch (publish only b), also update b, re-submit the same value}.
pub fn chain_histories(a: &[u8], b: &[u8], n: usize, k: usize) -> Vec<Vec<Batch>> {
    // value of a at step i: "v{i}"; deviations chosen at up to k positions
    fn rec(pos: usize, n: usize, k: usize, cur: &mut Vec<u8>, out: &mut Vec<Vec<u8>>) {
        if pos == n {
            out.push(cur.clone());
            return;
        }
        cur.push(0);
        rec(pos + 1, n, k, cur, out);
        cur.pop();
        if k > 0 {
            for d in 1..=3u8 {
                cur.push(d);
                rec(pos + 1, n, k - 1, cur, out);
                cur.pop();
            }
        }
    }
    let mut plans = vec![];
    rec(0, n, k, &mut vec![], &mut plans);
    plans
        .into_iter()
        .map(|plan| {
            let mut hist = vec![];
            let mut last_a: Option<Vec<u8>> = None;
            for (i, d) in plan.iter().enumerate() {
                let va = format!("v{i}").into_bytes();
                let vb = format!("w{i}").into_bytes();
                let batch: Batch = match d {
                    0 => {
                        last_a = Some(va.clone());
                        vec![(a.to_vec(), va)]
                    }
                    1 => vec![(b.to_vec(), vb)],
                    2 => {
                        last_a = Some(va.clone());
                        vec![(a.to_vec(), va), (b.to_vec(), vb)]
                    }
                    _ => match &last_a {
                        Some(v) => vec![(a.to_vec(), v.clone())],
                        None => {
                            last_a = Some(va.clone());
                            vec![(a.to_vec(), va)]
                        }
                    },
                };
                hist.push(batch);
            }
            hist
        })
        .collect()
}

/// Run a fixed list of histories (e.g. chains), visiting after every epoch.
pub fn walk_histories<TC: ModelCfg, V: HistVisitor<TC>>(cfg: &WalkCfg, histories: &[Vec<Batch>], v: &V) {
    crate::explore::par_for(cfg.threads, histories, |_, hist| {
        let rt = crate::gate::plain_runtime();
        rt.block_on(async {
            let mut ctx = empty_ctx::<TC>().await;
            for b in hist {
                ctx = step(&ctx, b, cfg, v).await;
                v.visit(&ctx).await;
            }
        });
    });
}
