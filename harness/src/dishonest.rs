//! A harness-side (dishonest) publisher: places ANY set of fresh/stale leaves and ANY value
//! states into real storage through the real tree code (Azks::batch_insert_nodes inside a real
//! storage transaction, like Directory::publish does), so that the real proof generators
//! (Directory::lookup / key_history) can be run against trees an honest server would never build.

use crate::common::*;
use crate::gate::{GateDb, GateVrf};
use crate::model::*;
use akd::append_only_zks::{Azks, AzksParallelismConfig, InsertMode};
use akd::storage::types::{DbRecord, ValueState};
use akd::storage::StorageManager;
use akd::{AkdLabel, AkdValue, AzksElement, Configuration};

#[derive(Clone, Debug)]
pub struct LeafSpec {
    pub label: Vec<u8>,
    pub fresh: bool,
    pub version: u64,
    /// value committed by a fresh leaf
    pub value: Vec<u8>,
}

pub struct DishonestServer<TC: ModelCfg> {
    pub db: GateDb,
    pub vrf: GateVrf,
    pub mgr: StorageManager<GateDb>,
    pub epoch: u64,
    /// root hash after each epoch (index = epoch)
    pub roots: Vec<D32>,
    _tc: std::marker::PhantomData<TC>,
}

impl<TC: ModelCfg> DishonestServer<TC> {
    pub async fn new() -> Self {
        let db = GateDb::new();
        let vrf = GateVrf::new();
        let mgr = manager(&db, CacheCfg::None);
        // initialise storage the way Directory::new does
        let dir = akd::directory::Directory::<TC, _, _>::new(mgr.clone(), vrf.clone(), AzksParallelismConfig::disabled()).await.expect("new");
        let root0 = dir.get_epoch_hash().await.unwrap().1;
        DishonestServer { db, vrf, mgr, epoch: 0, roots: vec![root0], _tc: Default::default() }
    }

    /// One epoch: insert the given leaves (stamped with the new epoch) and write the given value
    /// states (their epoch field is set by the caller) — no consistency between the two is enforced.
    pub async fn publish_raw(&mut self, leaves: &[LeafSpec], states: &[ValueState]) -> D32 {
        let ck = TC::hash(&test_key());
        let mut azks = match self.mgr.get::<Azks>(&akd::append_only_zks::DEFAULT_AZKS_KEY).await {
            Ok(DbRecord::Azks(a)) => a,
            other => panic!("no azks: {other:?}"),
        };
        let elems: Vec<AzksElement> = leaves
            .iter()
            .map(|l| {
                let nl = node_label::<TC>(&l.label, l.fresh, l.version);
                let value = if l.fresh { TC::compute_fresh_azks_value(&ck, &nl, l.version, &AkdValue(l.value.clone())) } else { TC::stale_azks_value() };
                AzksElement { label: nl, value }
            })
            .collect();
        assert!(self.mgr.begin_transaction());
        azks.batch_insert_nodes::<TC, _>(&self.mgr, elems, InsertMode::Directory, AzksParallelismConfig::disabled()).await.expect("insert");
        let mut recs = vec![DbRecord::Azks(azks.clone())];
        for s in states {
            recs.push(DbRecord::ValueState(s.clone()));
        }
        self.mgr.batch_set(recs).await.unwrap();
        self.mgr.commit_transaction().await.expect("commit");
        self.epoch = azks.latest_epoch;
        let root = azks.get_root_hash::<TC, _>(&self.mgr).await.unwrap();
        self.roots.push(root);
        root
    }

    pub fn value_state(label: &[u8], version: u64, epoch: u64, value: &[u8]) -> ValueState {
        let nl = node_label::<TC>(label, true, version);
        akd::storage::types::DbRecord::build_user_state(label.to_vec(), value.to_vec(), version, nl.label_len, nl.label_val, epoch)
    }

    /// a fresh read-only view over the dishonest storage
    pub async fn reader(&self) -> crate::oracles::RoDir<TC> {
        crate::oracles::RoDir::<TC>::new(manager(&self.db, CacheCfg::None), self.vrf.clone(), AzksParallelismConfig::disabled()).await.expect("reader")
    }
}

pub fn akd_label(l: &[u8]) -> AkdLabel {
    AkdLabel(l.to_vec())
}
