//! Reference models, written from the documented specification (akd_core/src/lib.rs docs
//! and the two configuration files), independent of akd's `Configuration` trait: every hash
//! formula is re-implemented directly on blake3 so that a drifted formula in akd shows up as a
//! disagreement rather than a shared mistake.

use std::collections::BTreeMap;

pub type D32 = [u8; 32];

/// A bit string (BitsModel): labels as plain vectors of bools.
#[derive(Clone, Debug, PartialEq, Eq, Hash, PartialOrd, Ord)]
pub struct Bits(pub Vec<bool>);

impl Bits {
    pub fn from_bytes(val: &[u8; 32], len: u32) -> Bits {
        let mut v = Vec::with_capacity(len as usize);
        for i in 0..len as usize {
            v.push((val[i / 8] >> (7 - (i % 8))) & 1 == 1);
        }
        Bits(v)
    }
    /// canonical byte form: bits beyond the length are zero
    pub fn to_bytes(&self) -> ([u8; 32], u32) {
        let mut out = [0u8; 32];
        for (i, b) in self.0.iter().enumerate() {
            if *b {
                out[i / 8] |= 1 << (7 - (i % 8));
            }
        }
        (out, self.0.len() as u32)
    }
    pub fn len(&self) -> usize {
        self.0.len()
    }
    pub fn is_prefix_of(&self, other: &Bits) -> bool {
        self.0.len() <= other.0.len() && self.0[..] == other.0[..self.0.len()]
    }
    pub fn lcp(&self, other: &Bits) -> Bits {
        let mut n = 0;
        while n < self.0.len() && n < other.0.len() && self.0[n] == other.0[n] {
            n += 1;
        }
        Bits(self.0[..n].to_vec())
    }
    pub fn prefix(&self, n: usize) -> Bits {
        Bits(self.0[..n.min(self.0.len())].to_vec())
    }
    pub fn show(&self) -> String {
        if self.0.len() > 24 {
            let s: String = self.0[..24].iter().map(|b| if *b { '1' } else { '0' }).collect();
            format!("{}..({})", s, self.0.len())
        } else {
            self.0.iter().map(|b| if *b { '1' } else { '0' }).collect()
        }
    }
}

/// The independent re-statement of a configuration's hash formulas.
pub trait ModelCfg: akd::configuration::Configuration {
    const NAME: &'static str;
    fn m_hash(b: &[u8]) -> D32;
    fn m_empty_root_value() -> D32;
    fn m_empty_node_hash() -> D32;
    /// raw byte form of the "empty label" sentinel (len_be || val)
    fn m_empty_label_raw() -> Vec<u8>;
    /// value of a label as mixed into the parent hash, from raw bytes (len_be || val)
    fn m_label_value(raw: &[u8]) -> Vec<u8>;
    fn m_parent(lv: &D32, ll: &[u8], rv: &D32, rl: &[u8]) -> D32;
    fn m_root_from_val(v: &D32) -> D32;
    fn m_stale_value() -> D32;
    fn m_nonce(ck: &[u8], label_raw: &[u8], version: u64, value: &[u8]) -> D32;
}

fn b3(b: &[u8]) -> D32 {
    *blake3::hash(b).as_bytes()
}

fn i2osp(b: &[u8]) -> Vec<u8> {
    let mut v = (b.len() as u64).to_be_bytes().to_vec();
    v.extend_from_slice(b);
    v
}

pub fn raw_label(val: &[u8; 32], len: u32) -> Vec<u8> {
    let mut v = len.to_be_bytes().to_vec();
    v.extend_from_slice(val);
    v
}

impl ModelCfg for akd::WhatsAppV1Configuration {
    const NAME: &'static str = "whatsapp_v1";
    fn m_hash(b: &[u8]) -> D32 {
        b3(b)
    }
    fn m_empty_root_value() -> D32 {
        b3(&[0u8])
    }
    fn m_empty_node_hash() -> D32 {
        let mut v = b3(&[0u8]).to_vec();
        v.extend_from_slice(&Self::m_label_value(&Self::m_empty_label_raw()));
        b3(&v)
    }
    fn m_empty_label_raw() -> Vec<u8> {
        raw_label(&[1u8; 32], 0)
    }
    fn m_label_value(raw: &[u8]) -> Vec<u8> {
        b3(raw).to_vec()
    }
    fn m_parent(lv: &D32, ll: &[u8], rv: &D32, rl: &[u8]) -> D32 {
        let l = b3(&[&lv[..], ll].concat());
        let r = b3(&[&rv[..], rl].concat());
        b3(&[&l[..], &r[..]].concat())
    }
    fn m_root_from_val(v: &D32) -> D32 {
        let root_label = Self::m_label_value(&raw_label(&[0u8; 32], 0));
        b3(&[&v[..], &root_label[..]].concat())
    }
    fn m_stale_value() -> D32 {
        b3(&[0u8])
    }
    fn m_nonce(ck: &[u8], label_raw: &[u8], version: u64, value: &[u8]) -> D32 {
        b3(&[ck, label_raw, &version.to_be_bytes(), &i2osp(value)].concat())
    }
}

impl ModelCfg for akd::ExperimentalConfiguration<akd::ExampleLabel> {
    const NAME: &'static str = "experimental";
    fn m_hash(b: &[u8]) -> D32 {
        b3(&[b"ExampleLabel".as_slice(), b].concat())
    }
    fn m_empty_root_value() -> D32 {
        [0u8; 32]
    }
    fn m_empty_node_hash() -> D32 {
        [0u8; 32]
    }
    fn m_empty_label_raw() -> Vec<u8> {
        let mut v = [0u8; 32];
        v[0] = 1;
        raw_label(&v, 0)
    }
    fn m_label_value(raw: &[u8]) -> Vec<u8> {
        raw.to_vec()
    }
    fn m_parent(lv: &D32, ll: &[u8], rv: &D32, rl: &[u8]) -> D32 {
        Self::m_hash(&[&lv[..], ll, &rv[..], rl].concat())
    }
    fn m_root_from_val(v: &D32) -> D32 {
        *v
    }
    fn m_stale_value() -> D32 {
        [0u8; 32]
    }
    fn m_nonce(ck: &[u8], label_raw: &[u8], _version: u64, _value: &[u8]) -> D32 {
        Self::m_hash(&[ck, label_raw].concat())
    }
}

pub fn m_commitment<C: ModelCfg>(ck: &[u8], label_raw: &[u8], version: u64, value: &[u8]) -> D32 {
    let nonce = C::m_nonce(ck, label_raw, version, value);
    C::m_hash(&[i2osp(value), i2osp(&nonce)].concat())
}

pub fn m_leaf_with_epoch<C: ModelCfg>(commitment: &D32, epoch: u64) -> D32 {
    C::m_hash(&[&commitment[..], &epoch.to_be_bytes()].concat())
}

/// One leaf of the trie model.
#[derive(Clone, Debug, PartialEq, Eq, PartialOrd, Ord, Hash)]
pub struct MLeaf {
    pub label: Bits,
    pub commitment: D32,
    pub epoch: u64,
}

/// A node of the model trie (label, value as seen by its parent).
#[derive(Clone, Debug)]
pub struct MNode {
    pub label: Bits,
    pub value: D32,
    pub is_leaf: bool,
    pub left: Option<Box<MNode>>,
    pub right: Option<Box<MNode>>,
}

fn label_value<C: ModelCfg>(b: &Bits) -> Vec<u8> {
    let (v, l) = b.to_bytes();
    C::m_label_value(&raw_label(&v, l))
}

/// Canonical compressed binary trie over a set of leaves sharing a common prefix (non-empty).
fn build_sub<C: ModelCfg>(leaves: &[&MLeaf], with_leaf_epoch: bool) -> MNode {
    assert!(!leaves.is_empty());
    if leaves.len() == 1 {
        let l = leaves[0];
        let value = if with_leaf_epoch {
            m_leaf_with_epoch::<C>(&l.commitment, l.epoch)
        } else {
            l.commitment
        };
        return MNode { label: l.label.clone(), value, is_leaf: true, left: None, right: None };
    }
    let mut lcp = leaves[0].label.clone();
    for l in &leaves[1..] {
        lcp = lcp.lcp(&l.label);
    }
    let n = lcp.len();
    let (zeros, ones): (Vec<&MLeaf>, Vec<&MLeaf>) = leaves.iter().partition(|l| !l.label.0[n]);
    assert!(!zeros.is_empty() && !ones.is_empty(), "duplicate or prefix-related labels in model leaf set");
    let l = build_sub::<C>(&zeros, with_leaf_epoch);
    let r = build_sub::<C>(&ones, with_leaf_epoch);
    let value = C::m_parent(&l.value, &label_value::<C>(&l.label), &r.value, &label_value::<C>(&r.label));
    MNode { label: lcp, value, is_leaf: false, left: Some(Box::new(l)), right: Some(Box::new(r)) }
}

pub struct MTree {
    pub root_value: D32,
    pub root_hash: D32,
    pub left: Option<MNode>,
    pub right: Option<MNode>,
    pub num_nodes: u64,
}

/// Root hash (and structure) of the canonical compressed trie over `leaves`.
pub fn trie<C: ModelCfg>(leaves: &[MLeaf]) -> MTree {
    trie_mode::<C>(leaves, true)
}

pub fn trie_mode<C: ModelCfg>(leaves: &[MLeaf], with_leaf_epoch: bool) -> MTree {
    if leaves.is_empty() {
        let rv = C::m_empty_root_value();
        return MTree { root_value: rv, root_hash: C::m_root_from_val(&rv), left: None, right: None, num_nodes: 1 };
    }
    let (zeros, ones): (Vec<&MLeaf>, Vec<&MLeaf>) = leaves.iter().partition(|l| !l.label.0[0]);
    let left = if zeros.is_empty() { None } else { Some(build_sub::<C>(&zeros, with_leaf_epoch)) };
    let right = if ones.is_empty() { None } else { Some(build_sub::<C>(&ones, with_leaf_epoch)) };
    let empty_label = C::m_label_value(&C::m_empty_label_raw());
    let (lv, ll) = match &left {
        Some(n) => (n.value, label_value::<C>(&n.label)),
        None => (C::m_empty_node_hash(), empty_label.clone()),
    };
    let (rv, rl) = match &right {
        Some(n) => (n.value, label_value::<C>(&n.label)),
        None => (C::m_empty_node_hash(), empty_label.clone()),
    };
    let root_value = C::m_parent(&lv, &ll, &rv, &rl);
    let mut num_nodes = 1;
    if !zeros.is_empty() {
        num_nodes += 2 * zeros.len() as u64 - 1;
    }
    if !ones.is_empty() {
        num_nodes += 2 * ones.len() as u64 - 1;
    }
    MTree { root_value, root_hash: C::m_root_from_val(&root_value), left, right, num_nodes }
}

impl MTree {
    /// all nodes (excluding the root) in pre-order
    pub fn nodes(&self) -> Vec<&MNode> {
        fn walk<'a>(n: &'a MNode, out: &mut Vec<&'a MNode>) {
            out.push(n);
            if let Some(l) = &n.left {
                walk(l, out);
            }
            if let Some(r) = &n.right {
                walk(r, out);
            }
        }
        let mut out = vec![];
        if let Some(l) = &self.left {
            walk(l, &mut out);
        }
        if let Some(r) = &self.right {
            walk(r, &mut out);
        }
        out
    }
}

/// DirModel: the directory as the specification describes it.
#[derive(Clone, Debug, Default)]
pub struct DirModel {
    pub epoch: u64,
    /// label -> list of (value, epoch of that update); version = index + 1
    pub users: BTreeMap<Vec<u8>, Vec<(Vec<u8>, u64)>>,
}

#[derive(Debug, PartialEq, Eq)]
pub enum MPublish {
    Rejected,
    NoChange,
    NewEpoch(u64),
}

impl DirModel {
    pub fn publish(&mut self, batch: &[(Vec<u8>, Vec<u8>)]) -> MPublish {
        let mut seen = std::collections::BTreeSet::new();
        for (l, _) in batch {
            if !seen.insert(l.clone()) {
                return MPublish::Rejected;
            }
        }
        let changes: Vec<&(Vec<u8>, Vec<u8>)> = batch
            .iter()
            .filter(|(l, v)| match self.users.get(l) {
                Some(vs) => &vs.last().unwrap().0 != v,
                None => true,
            })
            .collect();
        if changes.is_empty() {
            return MPublish::NoChange;
        }
        self.epoch += 1;
        for (l, v) in changes {
            self.users.entry(l.clone()).or_default().push((v.clone(), self.epoch));
        }
        MPublish::NewEpoch(self.epoch)
    }

    /// the model as it stood at epoch `e` (e <= self.epoch)
    pub fn as_of(&self, e: u64) -> DirModel {
        let mut users = BTreeMap::new();
        for (l, vs) in &self.users {
            let kept: Vec<_> = vs.iter().filter(|(_, ep)| *ep <= e).cloned().collect();
            if !kept.is_empty() {
                users.insert(l.clone(), kept);
            }
        }
        DirModel { epoch: e, users }
    }

    /// latest (value, version, epoch)
    pub fn latest(&self, label: &[u8]) -> Option<(Vec<u8>, u64, u64)> {
        self.users.get(label).map(|vs| {
            let (v, e) = vs.last().unwrap();
            (v.clone(), vs.len() as u64, *e)
        })
    }

    /// history newest first: (value, version, epoch)
    pub fn history(&self, label: &[u8], most_recent: Option<usize>) -> Option<Vec<(Vec<u8>, u64, u64)>> {
        self.users.get(label).map(|vs| {
            let mut out: Vec<_> = vs
                .iter()
                .enumerate()
                .map(|(i, (v, e))| (v.clone(), i as u64 + 1, *e))
                .collect();
            out.reverse();
            if let Some(n) = most_recent {
                out.truncate(n);
            }
            out
        })
    }

    /// (label, fresh?, version, epoch stamped on the leaf, value for fresh leaves)
    pub fn leaf_specs(&self) -> Vec<(Vec<u8>, bool, u64, u64, Option<Vec<u8>>)> {
        let mut out = vec![];
        for (l, vs) in &self.users {
            for (i, (v, e)) in vs.iter().enumerate() {
                let version = i as u64 + 1;
                out.push((l.clone(), true, version, *e, Some(v.clone())));
                if i + 1 < vs.len() {
                    // superseded: stale leaf stamped with the superseding epoch
                    out.push((l.clone(), false, version, vs[i + 1].1, None));
                }
            }
        }
        out
    }
}
