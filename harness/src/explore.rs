//! E1: stateless choice-tree explorer with deviation bounding (DFS by re-execution).
//!
//! A scenario is a deterministic function of the choices it draws from a `Chooser`. The
//! explorer runs it with a prefix of forced choices (taking option 0, the default, afterwards),
//! then branches on every later choice point whose cumulative deviation cost stays within the
//! bound. Replaying a prefix checks that the option counts match the recording: a divergence is
//! a machinery error, never a verdict.

use std::sync::atomic::{AtomicU64, AtomicUsize, Ordering};
use std::sync::{Arc, Condvar, Mutex};

// ---- panics: a panic raised INSIDE akd / akd_core code while a case runs is an observation about
// the subject (recorded, reported as a violation by Report::finish); a panic raised by harness code is a
// machinery failure and is re-raised.
thread_local! {
    static LAST_PANIC: std::cell::RefCell<Option<(String, String)>> = const { std::cell::RefCell::new(None) };
}
pub static SUBJECT_PANICS: Mutex<Vec<(String, String)>> = Mutex::new(Vec::new());

pub fn install_panic_hook() {
    let default = std::panic::take_hook();
    std::panic::set_hook(Box::new(move |info| {
        let loc = info.location().map(|l| format!("{}:{}", l.file(), l.line())).unwrap_or_default();
        let msg = info
            .payload()
            .downcast_ref::<String>()
            .cloned()
            .or_else(|| info.payload().downcast_ref::<&str>().map(|s| s.to_string()))
            .unwrap_or_else(|| "panic".into());
        let in_subject = loc.starts_with("/repo/") || loc.contains("/akd/src/") || loc.contains("/akd_core/src/");
        LAST_PANIC.with(|p| *p.borrow_mut() = Some((loc.clone(), msg.clone())));
        if !in_subject && std::env::var("AKDMC_QUIET_PANICS").is_err() {
            default(info);
        }
    }));
}

/// run `f`; a panic from inside the subject is recorded and swallowed, any other panic is re-raised
pub fn guard_case<F: FnOnce()>(f: F) {
    LAST_PANIC.with(|p| *p.borrow_mut() = None);
    if let Err(payload) = std::panic::catch_unwind(std::panic::AssertUnwindSafe(f)) {
        let last = LAST_PANIC.with(|p| p.borrow_mut().take());
        match last {
            Some((loc, msg)) if loc.starts_with("/repo/") || loc.contains("/akd/src/") || loc.contains("/akd_core/src/") => {
                SUBJECT_PANICS.lock().unwrap().push((loc, msg));
            }
            _ => std::panic::resume_unwind(payload),
        }
    }
}

#[derive(Clone, Debug)]
pub struct Point {
    pub n: u32,
    pub picked: u32,
    /// cost of each option (option 0 must cost 0)
    pub costs: Vec<u32>,
    pub label: String,
}

pub struct Chooser {
    prefix: Vec<u32>,
    /// expected option counts for the prefix (None for hand-made prefixes)
    expect_n: Option<Vec<u32>>,
    pub points: Vec<Point>,
    pub diverged: Option<String>,
}

impl Chooser {
    pub fn new(prefix: Vec<u32>, expect_n: Option<Vec<u32>>) -> Self {
        Chooser { prefix, expect_n, points: vec![], diverged: None }
    }
    pub fn default_run() -> Self {
        Self::new(vec![], None)
    }
    /// Pick one of `costs.len()` options; option 0 is the default and must cost 0.
    pub fn pick_cost(&mut self, costs: &[u32], label: impl FnOnce() -> String) -> usize {
        let n = costs.len() as u32;
        assert!(n >= 1);
        let i = self.points.len();
        let picked = if i < self.prefix.len() {
            let p = self.prefix[i];
            if let Some(exp) = &self.expect_n {
                if exp[i] != n && self.diverged.is_none() {
                    self.diverged = Some(format!("choice point {i}: recorded {} options, replay has {n}", exp[i]));
                }
            }
            if p >= n {
                if self.diverged.is_none() {
                    self.diverged = Some(format!("choice point {i}: forced option {p} out of range {n}"));
                }
                0
            } else {
                p
            }
        } else {
            0
        };
        self.points.push(Point { n, picked, costs: costs.to_vec(), label: label() });
        picked as usize
    }
    /// uniform-cost pick: every non-default option costs `alt_cost`
    pub fn pick(&mut self, n: usize, alt_cost: u32, label: impl FnOnce() -> String) -> usize {
        let mut costs = vec![alt_cost; n];
        costs[0] = 0;
        self.pick_cost(&costs, label)
    }
    pub fn choices(&self) -> Vec<u32> {
        self.points.iter().map(|p| p.picked).collect()
    }
    pub fn cost(&self) -> u32 {
        self.points.iter().map(|p| p.costs[p.picked as usize]).sum()
    }
}

pub struct ExploreStats {
    pub executions: u64,
    pub choice_points: u64,
    pub max_depth: usize,
    pub capped: bool,
}

struct Queue {
    items: Mutex<(Vec<(Vec<u32>, Vec<u32>)>, usize)>, // (stack of (prefix, expect_n), in-flight)
    cv: Condvar,
}

/// Explore all executions with total deviation cost <= bound. `run` is called once per
/// execution (on one of `threads` workers) with a chooser; it returns nothing — results are
/// accumulated by the caller through shared state. `cap` bounds the number of executions.
pub fn explore<F>(threads: usize, bound: u32, cap: u64, run: F) -> ExploreStats
where
    F: Fn(&mut Chooser) + Send + Sync,
{
    let q = Arc::new(Queue { items: Mutex::new((vec![(vec![], vec![])], 0)), cv: Condvar::new() });
    let execs = AtomicU64::new(0);
    let points = AtomicU64::new(0);
    let maxd = AtomicUsize::new(0);
    let capped = std::sync::atomic::AtomicBool::new(false);
    std::thread::scope(|s| {
        for _ in 0..threads.max(1) {
            let q = q.clone();
            let run = &run;
            let execs = &execs;
            let points = &points;
            let maxd = &maxd;
            let capped = &capped;
            s.spawn(move || loop {
                let item = {
                    let mut g = q.items.lock().unwrap();
                    loop {
                        if let Some(it) = g.0.pop() {
                            g.1 += 1;
                            break Some(it);
                        }
                        if g.1 == 0 {
                            break None;
                        }
                        g = q.cv.wait(g).unwrap();
                    }
                };
                let Some((prefix, expect)) = item else {
                    q.cv.notify_all();
                    return;
                };
                let plen = prefix.len();
                let mut ch = Chooser::new(prefix, Some(expect));
                guard_case(|| run(&mut ch));
                if let Some(d) = &ch.diverged {
                    eprintln!("MACHINERY ERROR: nondeterministic replay: {d}");
                    std::process::exit(2);
                }
                let n = execs.fetch_add(1, Ordering::Relaxed) + 1;
                points.fetch_add(ch.points.len() as u64, Ordering::Relaxed);
                maxd.fetch_max(ch.points.len(), Ordering::Relaxed);
                let mut new_items = vec![];
                if n < cap {
                    // cumulative cost before each point
                    let mut cum = 0u32;
                    let choices = ch.choices();
                    let ns: Vec<u32> = ch.points.iter().map(|p| p.n).collect();
                    for (i, p) in ch.points.iter().enumerate() {
                        if i >= plen {
                            for alt in 1..p.n {
                                if cum + p.costs[alt as usize] <= bound {
                                    let mut np = choices[..i].to_vec();
                                    np.push(alt);
                                    new_items.push((np, ns[..=i].to_vec()));
                                }
                            }
                        }
                        cum += p.costs[p.picked as usize];
                    }
                } else {
                    capped.store(true, Ordering::Relaxed);
                }
                let mut g = q.items.lock().unwrap();
                g.1 -= 1;
                if !capped.load(Ordering::Relaxed) {
                    g.0.extend(new_items);
                } else {
                    g.0.clear();
                }
                drop(g);
                q.cv.notify_all();
            });
        }
    });
    ExploreStats {
        executions: execs.load(Ordering::Relaxed),
        choice_points: points.load(Ordering::Relaxed),
        max_depth: maxd.load(Ordering::Relaxed),
        capped: capped.load(Ordering::Relaxed),
    }
}

/// Simple parallel map over a work list with a shared index (used by enumerations that are
/// not choice trees).
pub fn par_for<T: Sync, F: Fn(usize, &T) + Send + Sync>(threads: usize, items: &[T], f: F) {
    let idx = AtomicUsize::new(0);
    std::thread::scope(|s| {
        for _ in 0..threads.max(1) {
            s.spawn(|| loop {
                let i = idx.fetch_add(1, Ordering::Relaxed);
                if i >= items.len() {
                    return;
                }
                guard_case(|| f(i, &items[i]));
            });
        }
    });
}
