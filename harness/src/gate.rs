//! GateDb / GateVrf: the harness stand-ins for akd's environment, and the E2 controlled
//! scheduler that owns every await point at which akd talks to that environment.
//!
//! GateDb wraps akd's own `AsyncInMemoryDatabase` (so memory.rs query logic stays under test).
//! Each call is a *gate*: under a scheduler it parks on a oneshot until the scheduler (invoked
//! from tokio's `on_thread_park`, i.e. exactly at quiescence) releases it with `Proceed` or
//! `Fail`; without a scheduler it consults a sequential fault plan (fail the k-th call) and a
//! commit-capture plan (crash enumeration).

use akd::errors::StorageError;
use akd::storage::memory::AsyncInMemoryDatabase;
use akd::storage::types::{DbRecord, KeyData, ValueState, ValueStateRetrievalFlag};
use akd::storage::{Database, DbSetState, Storable, StorageUtil};
use akd::{AkdLabel, AkdValue};
use async_trait::async_trait;
use std::collections::HashMap;
use std::sync::atomic::{AtomicBool, AtomicUsize, Ordering};
use std::sync::{Arc, Mutex};

use crate::explore::Chooser;

#[derive(Clone, Debug, PartialEq, Eq)]
pub struct OpDesc {
    pub kind: &'static str,
    pub detail: String,
    pub is_write: bool,
    pub is_commit: bool,
}

#[derive(Clone, Copy, Debug, PartialEq, Eq)]
pub enum Answer {
    Proceed,
    Fail,
}

/// What to do with the commit batch when it arrives (crash enumeration, C11).
#[derive(Clone)]
pub enum CommitPlan {
    /// apply normally
    Apply,
    /// record the batch (canonically ordered, epoch record last), apply nothing, return an error
    CaptureAndFail,
    /// record EVERY write call (set / batch_set, in order), apply nothing, report success: the writes of a
    /// publish are collected however the implementation groups them
    CaptureAll,
}

pub struct Ctl {
    /// sequential fault plan: fail the call with this index (counted from `arm`)
    pub fail_at: Mutex<Option<usize>>,
    pub counter: AtomicUsize,
    pub armed: AtomicBool,
    pub log: Mutex<Vec<OpDesc>>,
    pub log_enabled: AtomicBool,
    pub commit_plan: Mutex<CommitPlan>,
    pub captured: Mutex<Vec<Vec<DbRecord>>>,
    /// every commit batch handed to storage (canonical order), when `record_commits` is on
    pub commit_log: Mutex<Vec<(Vec<DbRecord>, bool)>>,
    pub record_commits: AtomicBool,
    /// reject the next n writes (set / batch_set) with a storage error, applying nothing
    pub reject_writes: AtomicUsize,
    pub sched: Mutex<Option<Arc<Sched>>>,
    /// number of db reads / writes seen (for evidence only)
    pub reads: AtomicUsize,
    pub writes: AtomicUsize,
    /// order in which commit batches were handed to storage: was the epoch record last?
    pub commit_azks_last_violations: AtomicUsize,
}

impl Ctl {
    pub fn new() -> Arc<Ctl> {
        Arc::new(Ctl {
            fail_at: Mutex::new(None),
            counter: AtomicUsize::new(0),
            armed: AtomicBool::new(false),
            log: Mutex::new(vec![]),
            log_enabled: AtomicBool::new(false),
            commit_plan: Mutex::new(CommitPlan::Apply),
            captured: Mutex::new(vec![]),
            commit_log: Mutex::new(vec![]),
            record_commits: AtomicBool::new(false),
            reject_writes: AtomicUsize::new(0),
            sched: Mutex::new(None),
            reads: AtomicUsize::new(0),
            writes: AtomicUsize::new(0),
            commit_azks_last_violations: AtomicUsize::new(0),
        })
    }
    /// start counting calls from 0 and (optionally) fail call number k
    pub fn arm(&self, fail_at: Option<usize>) {
        self.counter.store(0, Ordering::SeqCst);
        *self.fail_at.lock().unwrap() = fail_at;
        self.armed.store(true, Ordering::SeqCst);
    }
    pub fn disarm(&self) -> usize {
        self.armed.store(false, Ordering::SeqCst);
        *self.fail_at.lock().unwrap() = None;
        self.counter.load(Ordering::SeqCst)
    }
    pub fn start_log(&self) {
        self.log.lock().unwrap().clear();
        self.log_enabled.store(true, Ordering::SeqCst);
    }
    pub fn take_log(&self) -> Vec<OpDesc> {
        self.log_enabled.store(false, Ordering::SeqCst);
        std::mem::take(&mut *self.log.lock().unwrap())
    }
}

#[derive(Clone)]
pub struct GateDb {
    pub inner: AsyncInMemoryDatabase,
    pub ctl: Arc<Ctl>,
}

pub fn rec_key(r: &DbRecord) -> Vec<u8> {
    r.get_full_binary_id()
}

pub fn short_key(k: &[u8]) -> String {
    // type byte, then a compact rendering
    match k.first() {
        Some(1) => "azks".to_string(),
        Some(2) => {
            let len = u32::from_be_bytes([k[1], k[2], k[3], k[4]]);
            format!("node[{}:{}]", len, hex::encode(&k[5..9]))
        }
        Some(4) => {
            let ep = u64::from_be_bytes(k[1..9].try_into().unwrap());
            format!("val[{}@{}]", String::from_utf8_lossy(&k[9..]), ep)
        }
        _ => hex::encode(k),
    }
}

impl GateDb {
    pub fn new() -> GateDb {
        GateDb { inner: AsyncInMemoryDatabase::new(), ctl: Ctl::new() }
    }
    pub fn with_ctl(inner: AsyncInMemoryDatabase, ctl: Arc<Ctl>) -> GateDb {
        GateDb { inner, ctl }
    }

    async fn gate(&self, desc: OpDesc) -> Result<(), StorageError> {
        if desc.is_write {
            self.ctl.writes.fetch_add(1, Ordering::Relaxed);
        } else {
            self.ctl.reads.fetch_add(1, Ordering::Relaxed);
        }
        if self.ctl.log_enabled.load(Ordering::Relaxed) {
            self.ctl.log.lock().unwrap().push(desc.clone());
        }
        let sched = self.ctl.sched.lock().unwrap().clone();
        if let Some(s) = sched {
            match s.park(desc).await {
                Answer::Proceed => Ok(()),
                Answer::Fail => Err(StorageError::Connection("injected fault (scheduler)".into())),
            }
        } else if self.ctl.armed.load(Ordering::SeqCst) {
            let k = self.ctl.counter.fetch_add(1, Ordering::SeqCst);
            if *self.ctl.fail_at.lock().unwrap() == Some(k) {
                return Err(StorageError::Connection(format!("injected fault at call {k}: {} {}", desc.kind, desc.detail)));
            }
            Ok(())
        } else {
            Ok(())
        }
    }

    /// response-delivery gate (only under a scheduler that asked for it)
    async fn post(&self, kind: &'static str) {
        let sched = self.ctl.sched.lock().unwrap().clone();
        if let Some(s) = sched {
            if s.post_gates.load(Ordering::SeqCst) {
                let _ = s.park(OpDesc { kind, detail: "response".into(), is_write: false, is_commit: false }).await;
            }
        }
    }

    /// canonical dump of the whole database: sorted (key, debug-rendering) pairs
    pub async fn dump(&self) -> Vec<(Vec<u8>, DbRecord)> {
        let mut all: Vec<(Vec<u8>, DbRecord)> = self
            .inner
            .batch_get_all_direct()
            .await
            .unwrap()
            .into_iter()
            .map(|r| (rec_key(&r), r))
            .collect();
        all.sort_by(|a, b| a.0.cmp(&b.0));
        all
    }

    /// a fresh, independent database with the same contents
    pub async fn fork(&self) -> GateDb {
        let d = GateDb::new();
        let recs: Vec<DbRecord> = self.dump().await.into_iter().map(|(_, r)| r).collect();
        d.inner.batch_set(recs, DbSetState::General).await.unwrap();
        d
    }

    pub async fn from_records(recs: Vec<DbRecord>) -> GateDb {
        let d = GateDb::new();
        d.inner.batch_set(recs, DbSetState::General).await.unwrap();
        d
    }
}

fn canon_batch(mut records: Vec<DbRecord>) -> (Vec<DbRecord>, bool) {
    // was the epoch record (if any) last, as handed over by akd?
    let azks_pos: Vec<usize> = records
        .iter()
        .enumerate()
        .filter(|(_, r)| matches!(r, DbRecord::Azks(_)))
        .map(|(i, _)| i)
        .collect();
    let azks_last = azks_pos.is_empty() || azks_pos == vec![records.len() - 1];
    // canonical order: non-epoch records by key, epoch record last
    records.sort_by(|a, b| {
        let pa = matches!(a, DbRecord::Azks(_));
        let pb = matches!(b, DbRecord::Azks(_));
        pa.cmp(&pb).then_with(|| rec_key(a).cmp(&rec_key(b)))
    });
    (records, azks_last)
}

#[async_trait]
impl Database for GateDb {
    async fn set(&self, record: DbRecord) -> Result<(), StorageError> {
        self.gate(OpDesc { kind: "set", detail: short_key(&rec_key(&record)), is_write: true, is_commit: false })
            .await?;
        if self.ctl.reject_writes.load(Ordering::SeqCst) > 0 {
            self.ctl.reject_writes.fetch_sub(1, Ordering::SeqCst);
            return Err(StorageError::Connection("write rejected by the database".into()));
        }
        if let CommitPlan::CaptureAll = self.ctl.commit_plan.lock().unwrap().clone() {
            self.ctl.captured.lock().unwrap().push(vec![record]);
            return Ok(());
        }
        let r = self.inner.set(record).await;
        self.post("set:done").await;
        r
    }

    async fn batch_set(&self, records: Vec<DbRecord>, state: DbSetState) -> Result<(), StorageError> {
        let is_commit = matches!(state, DbSetState::TransactionCommit);
        let (records, azks_last) = canon_batch(records);
        if (is_commit || matches!(*self.ctl.commit_plan.lock().unwrap(), CommitPlan::CaptureAll)) && !azks_last {
            self.ctl.commit_azks_last_violations.fetch_add(1, Ordering::SeqCst);
        }
        let detail = format!(
            "{}[{}]",
            if is_commit { "commit" } else { "general" },
            records.iter().map(|r| short_key(&rec_key(r))).collect::<Vec<_>>().join(",")
        );
        self.gate(OpDesc { kind: "batch_set", detail, is_write: true, is_commit }).await?;
        if is_commit && self.ctl.record_commits.load(Ordering::SeqCst) {
            self.ctl.commit_log.lock().unwrap().push((records.clone(), azks_last));
        }
        if self.ctl.reject_writes.load(Ordering::SeqCst) > 0 {
            self.ctl.reject_writes.fetch_sub(1, Ordering::SeqCst);
            return Err(StorageError::Connection("write rejected by the database".into()));
        }
        if let CommitPlan::CaptureAll = self.ctl.commit_plan.lock().unwrap().clone() {
            self.ctl.captured.lock().unwrap().push(records);
            return Ok(());
        }
        if is_commit {
            let plan = self.ctl.commit_plan.lock().unwrap().clone();
            if let CommitPlan::CaptureAndFail = plan {
                self.ctl.captured.lock().unwrap().push(records);
                return Err(StorageError::Connection("simulated crash during commit".into()));
            }
        }
        let r = self.inner.batch_set(records, state).await;
        self.post("batch_set:done").await;
        r
    }

    async fn get<St: Storable>(&self, id: &St::StorageKey) -> Result<DbRecord, StorageError> {
        let k = St::get_full_binary_key_id(id);
        self.gate(OpDesc { kind: "get", detail: short_key(&k), is_write: false, is_commit: false }).await?;
        let r = self.inner.get::<St>(id).await;
        self.post("get:done").await;
        r
    }

    async fn batch_get<St: Storable>(&self, ids: &[St::StorageKey]) -> Result<Vec<DbRecord>, StorageError> {
        // canonicalise: akd hands keys over in HashSet iteration order
        let mut keyed: Vec<(Vec<u8>, St::StorageKey)> =
            ids.iter().map(|i| (St::get_full_binary_key_id(i), i.clone())).collect();
        keyed.sort_by(|a, b| a.0.cmp(&b.0));
        let detail = if keyed.len() > 10 {
            format!(
                "[{} keys: {},..,{}]",
                keyed.len(),
                keyed[..3].iter().map(|(k, _)| short_key(k)).collect::<Vec<_>>().join(","),
                short_key(&keyed[keyed.len() - 1].0)
            )
        } else {
            format!("[{}]", keyed.iter().map(|(k, _)| short_key(k)).collect::<Vec<_>>().join(","))
        };
        self.gate(OpDesc { kind: "batch_get", detail, is_write: false, is_commit: false }).await?;
        let sorted: Vec<St::StorageKey> = keyed.into_iter().map(|(_, i)| i).collect();
        let r = self.inner.batch_get::<St>(&sorted).await;
        self.post("batch_get:done").await;
        r
    }

    async fn get_user_data(&self, username: &AkdLabel) -> Result<KeyData, StorageError> {
        self.gate(OpDesc {
            kind: "get_user_data",
            detail: String::from_utf8_lossy(username).to_string(),
            is_write: false,
            is_commit: false,
        })
        .await?;
        let r = self.inner.get_user_data(username).await;
        self.post("get_user_data:done").await;
        r
    }

    async fn get_user_state(&self, username: &AkdLabel, flag: ValueStateRetrievalFlag) -> Result<ValueState, StorageError> {
        self.gate(OpDesc {
            kind: "get_user_state",
            detail: format!("{} {:?}", String::from_utf8_lossy(username), flag),
            is_write: false,
            is_commit: false,
        })
        .await?;
        let r = self.inner.get_user_state(username, flag).await;
        self.post("get_user_state:done").await;
        r
    }

    async fn get_user_state_versions(
        &self,
        usernames: &[AkdLabel],
        flag: ValueStateRetrievalFlag,
    ) -> Result<HashMap<AkdLabel, (u64, AkdValue)>, StorageError> {
        let mut names: Vec<String> = usernames.iter().map(|u| String::from_utf8_lossy(u).to_string()).collect();
        names.sort();
        self.gate(OpDesc {
            kind: "get_user_state_versions",
            detail: format!("{:?} {:?}", names, flag),
            is_write: false,
            is_commit: false,
        })
        .await?;
        let r = self.inner.get_user_state_versions(usernames, flag).await;
        self.post("get_user_state_versions:done").await;
        r
    }
}

// ---------------------------------------------------------------------------------------
// VRF key storage with a gate at every key retrieval

#[derive(Clone)]
pub struct GateVrf {
    pub key: Arc<Vec<u8>>,
    pub sched: Arc<Mutex<Option<Arc<Sched>>>>,
}

pub const TEST_KEY_HEX: &str = "c9afa9d845ba75166b5c215767b1d6934e50c3db36e89b127b8a622b120f6721";

impl GateVrf {
    pub fn new() -> GateVrf {
        GateVrf { key: Arc::new(hex::decode(TEST_KEY_HEX).unwrap()), sched: Arc::new(Mutex::new(None)) }
    }
    pub fn with_key(key: Vec<u8>) -> GateVrf {
        GateVrf { key: Arc::new(key), sched: Arc::new(Mutex::new(None)) }
    }
}

#[async_trait]
impl akd::ecvrf::VRFKeyStorage for GateVrf {
    async fn retrieve(&self) -> Result<Vec<u8>, akd::ecvrf::VrfError> {
        let sched = self.sched.lock().unwrap().clone();
        if let Some(s) = sched {
            if s.gate_vrf {
                let _ = s
                    .park(OpDesc { kind: "vrf_key", detail: String::new(), is_write: false, is_commit: false })
                    .await;
            }
        }
        Ok(self.key.as_ref().clone())
    }
}

// ---------------------------------------------------------------------------------------
// E2: the controlled scheduler

struct Parked {
    task: usize,
    desc: OpDesc,
    tx: tokio::sync::oneshot::Sender<Answer>,
}

#[derive(Clone, Debug)]
pub struct Step {
    pub task: usize,
    pub desc: OpDesc,
    pub answer: Answer,
    pub preempt: bool,
}

#[derive(PartialEq, Eq, Clone, Copy, Debug)]
pub enum Mode {
    /// gates park and wait for the scheduler
    Controlled,
    /// detached tasks are being drained: parked gates are released FIFO without choice
    Draining,
    /// gates pass straight through (oracle phase)
    Free,
}

pub struct SchedSt {
    parked: Vec<Parked>,
    task_ords: HashMap<tokio::task::Id, usize>,
    /// names given to top-level actor tasks, by ordinal
    pub task_names: Vec<String>,
    last_task: Option<usize>,
    pub chooser: Chooser,
    pub steps: Vec<Step>,
    pub mode: Mode,
    pub faults_left: u32,
    drained_tx: Option<tokio::sync::oneshot::Sender<()>>,
    /// whether an "idle" choice (release nothing; let virtual time advance to the next timer) is offered
    pub offer_idle: bool,
    pub idle_taken: u32,
    /// an idle choice is in effect since this virtual instant: the hook may be re-invoked before the
    /// runtime actually parks and advances the paused clock; such re-invocations are not new choices
    idle_since: Option<(tokio::time::Instant, usize)>,
    /// fault filter: may this op be failed?
    pub faultable: fn(&OpDesc) -> bool,
}

pub struct Sched {
    pub st: Mutex<SchedSt>,
    pub gate_vrf: bool,
    /// also park AFTER each database operation took effect (delivery of the response is a
    /// separate scheduling point: models I/O completion order)
    pub post_gates: AtomicBool,
}

fn never_faultable(_: &OpDesc) -> bool {
    false
}

impl Sched {
    pub fn new(chooser: Chooser, gate_vrf: bool) -> Arc<Sched> {
        Arc::new(Sched {
            st: Mutex::new(SchedSt {
                parked: vec![],
                task_ords: HashMap::new(),
                task_names: vec![],
                last_task: None,
                chooser,
                steps: vec![],
                mode: Mode::Controlled,
                faults_left: 0,
                drained_tx: None,
                offer_idle: false,
                idle_taken: 0,
                idle_since: None,
                faultable: never_faultable,
            }),
            gate_vrf,
            post_gates: AtomicBool::new(false),
        })
    }

    fn task_ord(st: &mut SchedSt) -> usize {
        let id = tokio::task::try_id();
        match id {
            Some(id) => {
                let n = st.task_ords.len();
                *st.task_ords.entry(id).or_insert(n)
            }
            None => usize::MAX, // the block_on future itself
        }
    }

    /// register the calling task under a readable name (call first thing inside an actor task)
    pub fn name_task(&self, name: &str) {
        let mut st = self.st.lock().unwrap();
        let ord = Self::task_ord(&mut st);
        while st.task_names.len() <= ord && ord != usize::MAX {
            let n = st.task_names.len();
            st.task_names.push(format!("t{n}"));
        }
        if ord != usize::MAX {
            st.task_names[ord] = name.to_string();
        }
    }

    pub async fn park(&self, desc: OpDesc) -> Answer {
        let rx = {
            let mut st = self.st.lock().unwrap();
            if st.mode == Mode::Free {
                return Answer::Proceed;
            }
            let task = Self::task_ord(&mut st);
            let (tx, rx) = tokio::sync::oneshot::channel();
            st.parked.push(Parked { task, desc, tx });
            rx
        };
        rx.await.unwrap_or(Answer::Proceed)
    }

    /// Called from tokio's on_thread_park hook: no task is runnable.
    pub fn on_quiescent(&self) {
        let mut st = self.st.lock().unwrap();
        // gates whose task was cancelled (receiver dropped) can never be released
        st.parked.retain(|p| !p.tx.is_closed());
        match st.mode {
            Mode::Free => {}
            Mode::Draining => {
                if st.parked.is_empty() {
                    if let Some(tx) = st.drained_tx.take() {
                        let _ = tx.send(());
                    }
                } else {
                    let p = st.parked.remove(0);
                    let task = p.task;
                    st.steps.push(Step { task, desc: p.desc.clone(), answer: Answer::Proceed, preempt: false });
                    let _ = p.tx.send(Answer::Proceed);
                }
            }
            Mode::Controlled => {
                if st.parked.is_empty() {
                    return; // tokio parks; paused clock auto-advances to the next timer (or the watchdog)
                }
                if let Some((t, n)) = st.idle_since {
                    // the paused clock advances timer-wheel slot by slot: keep idling until something
                    // actually happened (a new gate parked, or a parked task went away)
                    let _ = t;
                    if st.parked.len() == n {
                        return; // still idling: let the runtime park and advance virtual time
                    }
                    st.idle_since = None;
                }
                // canonical order: the task that ran last first (if enabled), then ascending ordinal
                let last = st.last_task;
                st.parked.sort_by_key(|p| (Some(p.task) != last, p.task));
                let last_enabled = st.parked.first().map(|p| Some(p.task) == last).unwrap_or(false);
                // options: Proceed(g) for each g, then Fail(g) for each faultable g, then idle
                let mut opts: Vec<(Option<usize>, Answer, u32)> = vec![];
                for (i, _p) in st.parked.iter().enumerate() {
                    let cost = if i == 0 { 0 } else if last_enabled { 1 } else { 0 };
                    opts.push((Some(i), Answer::Proceed, cost));
                }
                if st.faults_left > 0 {
                    for (i, p) in st.parked.iter().enumerate() {
                        if (st.faultable)(&p.desc) {
                            let sw = if i == 0 { 0 } else if last_enabled { 1 } else { 0 };
                            opts.push((Some(i), Answer::Fail, 1 + sw));
                        }
                    }
                }
                if st.offer_idle {
                    opts.push((None, Answer::Proceed, 1));
                }
                let costs: Vec<u32> = opts.iter().map(|o| o.2).collect();
                let label = {
                    let names = &st.task_names;
                    let descs: Vec<String> = st
                        .parked
                        .iter()
                        .map(|p| format!("{}:{} {}", names.get(p.task).cloned().unwrap_or(format!("t{}", p.task)), p.desc.kind, p.desc.detail))
                        .collect();
                    move || descs.join(" | ")
                };
                let pick = if opts.len() == 1 { 0 } else { st.chooser.pick_cost(&costs, label) };
                let (gi, ans, cost) = opts[pick];
                match gi {
                    None => {
                        st.idle_taken += 1;
                        st.idle_since = Some((tokio::time::Instant::now(), st.parked.len()));
                        // release nothing: tokio parks and virtual time advances to the next timer
                    }
                    Some(i) => {
                        let p = st.parked.remove(i);
                        if ans == Answer::Fail {
                            st.faults_left -= 1;
                        }
                        let preempt = cost > 0 && i != 0 && last_enabled;
                        st.steps.push(Step { task: p.task, desc: p.desc.clone(), answer: ans, preempt });
                        st.last_task = Some(p.task);
                        let _ = p.tx.send(ans);
                    }
                }
            }
        }
    }

    /// Switch to draining mode and wait until every parked gate of detached tasks has been released.
    pub async fn drain(&self) {
        let rx = {
            let mut st = self.st.lock().unwrap();
            st.mode = Mode::Draining;
            let (tx, rx) = tokio::sync::oneshot::channel();
            st.drained_tx = Some(tx);
            rx
        };
        let _ = rx.await;
        self.st.lock().unwrap().mode = Mode::Free;
    }

    pub fn set_free(&self) {
        self.st.lock().unwrap().mode = Mode::Free;
    }

    pub fn parked_count(&self) -> usize {
        self.st.lock().unwrap().parked.len()
    }
}

/// Build a current-thread runtime with paused virtual time whose park hook drives `sched`.
pub fn controlled_runtime(sched: Arc<Sched>) -> tokio::runtime::Runtime {
    let s2 = sched.clone();
    tokio::runtime::Builder::new_current_thread()
        .enable_time()
        .start_paused(true)
        .on_thread_park(move || s2.on_quiescent())
        .build()
        .unwrap()
}

pub fn plain_runtime() -> tokio::runtime::Runtime {
    tokio::runtime::Builder::new_current_thread().enable_time().start_paused(true).build().unwrap()
}
