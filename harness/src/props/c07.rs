//! C07 — a verifying history proof cannot hide, reorder, invent or misdate versions.

use super::c06::{server, Server};
use super::hist::*;
use crate::common::*;
use crate::dishonest::*;
use crate::model::*;
use crate::oracles::*;
use crate::report::Report;
use crate::Args;
use akd::append_only_zks::AzksParallelismConfig;
use akd::{AkdLabel, AkdValue, EpochHash, HistoryParams, HistoryProof, HistoryVerificationParams, NonMembershipProof, UpdateProof};
use akd_core::utils::get_marker_versions;
use serde_json::json;
use std::future::Future;
use std::pin::Pin;

#[derive(Clone, Copy, Debug)]
enum FutStrategy {
    /// whatever the honest absence generator returns
    Generator,
    /// a forged absence anchored at the real ancestor at this depth
    Anchor(usize),
    /// the same, with the queried label's length shortened to the anchor's length (value kept)
    AnchorTruncatedLabel(usize),
}

impl<TC: ModelCfg> Server<TC> {
    async fn update_proof(&self, label: &[u8], v: u64, value: &[u8], epoch: u64) -> UpdateProof {
        UpdateProof {
            epoch,
            version: v,
            value: AkdValue(value.to_vec()),
            existence_vrf_proof: self.vrf_proof(label, true, v).await,
            existence_proof: self.member(node_label::<TC>(label, true, v)).await,
            previous_version_vrf_proof: if v > 1 { Some(self.vrf_proof(label, false, v - 1).await) } else { None },
            previous_version_proof: if v > 1 { Some(self.member(node_label::<TC>(label, false, v - 1)).await) } else { None },
            commitment_nonce: self.nonce(label, v, value),
        }
    }

    async fn absence(&self, label: &[u8], fm: u64, exists: bool, st: FutStrategy) -> NonMembershipProof {
        let nl = node_label::<TC>(label, true, fm);
        match (exists, st) {
            (true, FutStrategy::Anchor(d)) => {
                let f = self.forged_absences(nl).await;
                match f.into_iter().find(|(depth, _)| *depth == d) {
                    Some((_, p)) => p,
                    None => self.non_member(nl).await,
                }
            }
            (true, FutStrategy::AnchorTruncatedLabel(d)) => {
                let f = self.forged_absences(nl).await;
                match f.into_iter().find(|(depth, _)| *depth == d) {
                    Some((_, mut p)) => {
                        p.label = akd::NodeLabel::new(nl.label_val, p.longest_prefix.label_len);
                        p
                    }
                    None => self.non_member(nl).await,
                }
            }
            _ => self.non_member(nl).await,
        }
    }

    /// the history proof a server assembles to claim that versions s..=e (newest first) are what the
    /// parameter asks for, with the marker lists computed for that claimed range
    async fn history_claim(&self, label: &[u8], s: u64, e: u64, versions: &[(Vec<u8>, u64)], cur: u64, st: FutStrategy) -> HistoryProof {
        let n = versions.len() as u64;
        let mut update_proofs = vec![];
        for v in (s..=e).rev() {
            let (val, ep) = if v <= n { versions[v as usize - 1].clone() } else { (b"forged".to_vec(), cur) };
            update_proofs.push(self.update_proof(label, v, &val, ep).await);
        }
        let (past, future) = get_marker_versions(s, e, cur);
        let mut past_vrf = vec![];
        let mut past_proofs = vec![];
        for m in past {
            past_vrf.push(self.vrf_proof(label, true, m).await);
            past_proofs.push(self.member(node_label::<TC>(label, true, m)).await);
        }
        let mut fut_vrf = vec![];
        let mut fut_proofs = vec![];
        for m in future {
            fut_vrf.push(self.vrf_proof(label, true, m).await);
            fut_proofs.push(self.absence(label, m, m <= n, st).await);
        }
        HistoryProof {
            update_proofs,
            past_marker_vrf_proofs: past_vrf,
            existence_of_past_marker_proofs: past_proofs,
            future_marker_vrf_proofs: fut_vrf,
            non_existence_of_future_marker_proofs: fut_proofs,
        }
    }
}

fn truth_for(model: &DirModel, label: &[u8], p: HistoryParams) -> Vec<VR> {
    let n = match p {
        HistoryParams::Complete => None,
        HistoryParams::MostRecent(n) => Some(n),
    };
    model.history(label, n).unwrap_or_default()
}

/// accepted => result equals the true list for that parameter (under AllowMissingValues an entry
/// may carry the empty value in place of the true one)
fn judge<TC: ModelCfg>(
    rep: &Report,
    what: &str,
    label: &[u8],
    cand: &HistoryProof,
    eh: &EpochHash,
    model: &DirModel,
    hist: &dyn Fn() -> String,
    extra: serde_json::Value,
    params: &[HistoryParams],
) {
    for p in params {
        for allow_missing in [false, true] {
            rep.eval(1);
            let vp = if allow_missing { HistoryVerificationParams::AllowMissingValues { history_params: *p } } else { HistoryVerificationParams::Default { history_params: *p } };
            if let Ok(list) = verify_history::<TC>(label, cand.clone(), eh, vp) {
                let truth = truth_for(model, label, *p);
                let same = list.len() == truth.len()
                    && list.iter().zip(truth.iter()).all(|(g, t)| g.1 == t.1 && g.2 == t.2 && (g.0 == t.0 || (allow_missing && g.0.is_empty())));
                if !same {
                    // the one known gap: with AllowMissingValues an entry presented with the empty (tombstone) value
                    // skips the leaf-hash check, so its EPOCH is not bound either
                    let only_epochs_of_empty_entries = allow_missing
                        && list.len() == truth.len()
                        && list.iter().zip(truth.iter()).all(|(g, t)| g.1 == t.1 && (g.0 == t.0 || g.0.is_empty()) && (g.2 == t.2 || g.0.is_empty()));
                    let misdated_versions: Vec<u64> = list.iter().zip(truth.iter()).filter(|(g, t)| g.2 != t.2).map(|(g, _)| g.1).collect();
                    let ident = if only_epochs_of_empty_entries {
                        // (version 1 has no stale-leaf proof that would bind its epoch; later versions do)
                        format!("{}/history_misdates_entry_presented_as_tombstone/{}/allow_missing", TC::NAME, if misdated_versions.iter().all(|v| *v == 1) { "version_1_only" } else { "later_versions" })
                    } else {
                        format!("{}/history_accepts_wrong_list/{}/{}", TC::NAME, what, if allow_missing { "allow_missing" } else { "default" })
                    };
                    rep.violation(
                        ident,
                        json!({"history": hist(), "label": show_bytes(label), "params": hp_name(p), "epoch": eh.0, "candidate": extra,
                               "accepted": list.iter().map(show_vr).collect::<Vec<_>>(), "truth": truth.iter().map(show_vr).collect::<Vec<_>>()}),
                    );
                } else {
                    rep.count("accepted_and_true", 1);
                }
            } else {
                if std::env::var("AKDMC_DEBUG_REJECT").map(|w| w == what).unwrap_or(false) {
                    eprintln!("rejected {what} {} {:?}: {:?}", hp_name(p), allow_missing, verify_history::<TC>(label, cand.clone(), eh, vp).err());
                }
                rep.count("rejected", 1);
            }
        }
    }
}

struct V7<'r> {
    rep: &'r Report,
    max_anchor: usize,
}

fn param_set(n: usize, claimed: usize) -> Vec<HistoryParams> {
    let mut ns = vec![1usize, claimed, claimed + 1, n, n + 1];
    ns.retain(|x| *x >= 1);
    ns.sort();
    ns.dedup();
    let mut v = vec![HistoryParams::Complete];
    v.extend(ns.into_iter().map(HistoryParams::MostRecent));
    v
}

impl<'r, TC: ModelCfg> HistVisitor<TC> for V7<'r> {
    fn visit<'a>(&'a self, ctx: &'a HistCtx<TC>) -> Pin<Box<dyn Future<Output = ()> + 'a>> {
        Box::pin(async move {
            if !matches!(ctx.last, Some(MPublish::NewEpoch(_))) {
                return;
            }
            let hist = || show_history(&ctx.history);
            let srv = server::<TC>(&ctx.db, &ctx.vrf, &ctx.model).await;
            let cur = ctx.model.epoch;
            let eh = EpochHash(cur, ctx.published[cur as usize]);
            let dir = new_dir::<TC>(&ctx.db, &ctx.vrf, CacheCfg::None, AzksParallelismConfig::disabled()).await;
            for (label, versions) in ctx.model.users.iter() {
                let n = versions.len() as u64;
                // ---- (1) every claimed range [s..=e] (e up to n+1) assembled from real material with the
                // marker lists computed for the claimed range; absences of existing markers forged
                let mut strategies = vec![FutStrategy::Generator];
                for d in 0..self.max_anchor {
                    strategies.push(FutStrategy::Anchor(d));
                    strategies.push(FutStrategy::AnchorTruncatedLabel(d));
                }
                for s in 1..=n {
                    for e in s..=(n + 1).min(cur) {
                        let needs_forgery = e < n; // some future marker of the claimed range exists in the tree
                        for st in strategies.iter() {
                            if !needs_forgery && !matches!(st, FutStrategy::Generator) {
                                continue;
                            }
                            let cand = srv.history_claim(label, s, e, versions, cur, *st).await;
                            let what = if s == 1 && e == n {
                                "honest_range"
                            } else if e < n {
                                "newest_dropped"
                            } else if e > n {
                                "version_invented"
                            } else {
                                "oldest_dropped"
                            };
                            judge::<TC>(self.rep, what, label, &cand, &eh, &ctx.model, &hist, json!({"claimed_range": [s, e], "absence_strategy": format!("{st:?}")}), &param_set(n as usize, (e - s + 1) as usize));
                        }
                    }
                }
                // ---- (1b) a version that does not exist, presented as a tombstoned entry (so no value binds its
                // leaf hash) with existence proofs forged from the root's own value and no sibling layers
                for s in (1..=n + 1).filter(|_| n + 1 <= cur) {
                    for ep in [cur, cur.saturating_sub(1), versions[n as usize - 1].1 + 1] {
                        let mut cand = srv.history_claim(label, s, n + 1, versions, cur, FutStrategy::Generator).await;
                        let up = &mut cand.update_proofs[0];
                        up.value = AkdValue(vec![]);
                        up.epoch = ep;
                        up.existence_proof = srv.forged_member_root(node_label::<TC>(label, true, n + 1));
                        up.previous_version_proof = Some(srv.forged_member_root(node_label::<TC>(label, false, n)));
                        judge::<TC>(self.rep, "version_invented_as_tombstone", label, &cand, &eh, &ctx.model, &hist, json!({"claimed_range": [s, n + 1], "invented_epoch": ep, "forged_existence": "root value, no sibling layers"}), &param_set(n as usize, (n + 2 - s) as usize));
                    }
                }
                // the same forgery for the existence of past markers / previous-version leaves of a real range
                {
                    let mut cand = srv.history_claim(label, 1, n, versions, cur, FutStrategy::Generator).await;
                    for p in cand.existence_of_past_marker_proofs.iter_mut() {
                        *p = srv.forged_member_root(p.label);
                    }
                    for up in cand.update_proofs.iter_mut() {
                        if let Some(pp) = up.previous_version_proof.as_mut() {
                            *pp = srv.forged_member_root(pp.label);
                        }
                    }
                    judge::<TC>(self.rep, "unbound_existence_proofs_forged", label, &cand, &eh, &ctx.model, &hist, json!({"forged_existence": "root value, no sibling layers"}), &param_set(n as usize, n as usize));
                }
                if n >= 2 {
                    self.rep.distinct(format!("{}:{}:n{}@{}", TC::NAME, show_bytes(label), n, cur));
                }
                // ---- (2) list-level alterations of the honest proofs (marker lists left unchanged)
                let mut honest_params = vec![HistoryParams::Complete];
                for k in 1..=n.min(3) {
                    honest_params.push(HistoryParams::MostRecent(k as usize));
                }
                for hp in honest_params {
                    let Ok((honest, heh)) = dir.key_history(&AkdLabel(label.clone()), hp).await else {
                        self.rep.violation(format!("{}/honest_history_failed", TC::NAME), json!({"history": hist(), "label": show_bytes(label), "params": hp_name(&hp)}));
                        continue;
                    };
                    if heh != eh {
                        continue;
                    }
                    let k = honest.update_proofs.len();
                    let mut cands: Vec<(String, HistoryProof)> = vec![];
                    for d in 1..k {
                        let mut c = honest.clone();
                        c.update_proofs.drain(..d);
                        cands.push((format!("drop_newest_{d}"), c));
                        let mut c = honest.clone();
                        c.update_proofs.truncate(k - d);
                        cands.push((format!("drop_oldest_{d}"), c));
                    }
                    for i in 1..k.saturating_sub(1) {
                        let mut c = honest.clone();
                        c.update_proofs.remove(i);
                        cands.push((format!("gap_at_{i}"), c));
                    }
                    for i in 0..k {
                        let mut c = honest.clone();
                        let dup = c.update_proofs[i].clone();
                        c.update_proofs.insert(i, dup);
                        cands.push((format!("duplicate_at_{i}"), c));
                        // value / epoch substitution from other versions, and tombstone substitution
                        for j in 0..k {
                            if i != j {
                                let mut c = honest.clone();
                                c.update_proofs[i].value = honest.update_proofs[j].value.clone();
                                cands.push((format!("value_of_{j}_at_{i}"), c));
                                let mut c = honest.clone();
                                c.update_proofs[i].value = honest.update_proofs[j].value.clone();
                                c.update_proofs[i].commitment_nonce = srv.nonce(label, honest.update_proofs[i].version, &honest.update_proofs[j].value);
                                cands.push((format!("value_and_nonce_of_{j}_at_{i}"), c));
                                let mut c = honest.clone();
                                c.update_proofs[i].epoch = honest.update_proofs[j].epoch;
                                cands.push((format!("epoch_of_{j}_at_{i}"), c));
                            }
                        }
                        for j in 0..k {
                            if i != j {
                                // entry i overwritten by a copy of entry j (length unchanged: a duplicate plus a gap)
                                let mut c = honest.clone();
                                c.update_proofs[i] = honest.update_proofs[j].clone();
                                cands.push((format!("overwritten_by_copy_of_{j}_at_{i}"), c));
                            }
                        }
                        let mut c = honest.clone();
                        c.update_proofs[i].value = AkdValue(vec![]);
                        cands.push((format!("tombstone_at_{i}"), c));
                        let mut c = honest.clone();
                        c.update_proofs[i].epoch += 1;
                        cands.push((format!("epoch_plus_one_at_{i}"), c));
                        // deviation 2: presented as a tombstone AND misdated
                        let mut c = honest.clone();
                        c.update_proofs[i].value = AkdValue(vec![]);
                        c.update_proofs[i].epoch += 1;
                        cands.push((format!("tombstone_and_epoch_plus_one_at_{i}"), c));
                        if i + 1 < k {
                            let mut c = honest.clone();
                            c.update_proofs[i].value = AkdValue(vec![]);
                            c.update_proofs[i].epoch = honest.update_proofs[i + 1].epoch;
                            cands.push((format!("tombstone_and_epoch_of_older_at_{i}"), c));
                        }
                        if honest.update_proofs[i].previous_version_proof.is_some() {
                            let mut c = honest.clone();
                            c.update_proofs[i].previous_version_proof = None;
                            c.update_proofs[i].previous_version_vrf_proof = None;
                            cands.push((format!("stale_proof_omitted_at_{i}"), c));
                        }
                    }
                    if k >= 2 {
                        let mut c = honest.clone();
                        c.update_proofs.reverse();
                        cands.push(("reversed".into(), c));
                        let mut c = honest.clone();
                        c.update_proofs.swap(0, 1);
                        cands.push(("swap_first_two".into(), c));
                    }
                    // marker lists: omitted / surplus
                    if !honest.past_marker_vrf_proofs.is_empty() {
                        let mut c = honest.clone();
                        c.past_marker_vrf_proofs.pop();
                        c.existence_of_past_marker_proofs.pop();
                        cands.push(("past_marker_omitted".into(), c));
                    }
                    if !honest.future_marker_vrf_proofs.is_empty() {
                        let mut c = honest.clone();
                        c.future_marker_vrf_proofs.pop();
                        c.non_existence_of_future_marker_proofs.pop();
                        cands.push(("future_marker_omitted".into(), c));
                        let mut c = honest.clone();
                        c.future_marker_vrf_proofs.remove(0);
                        c.non_existence_of_future_marker_proofs.remove(0);
                        cands.push(("first_future_marker_omitted".into(), c));
                        let mut c = honest.clone();
                        let a = c.future_marker_vrf_proofs[0].clone();
                        let b = c.non_existence_of_future_marker_proofs[0].clone();
                        c.future_marker_vrf_proofs.push(a);
                        c.non_existence_of_future_marker_proofs.push(b);
                        cands.push(("surplus_future_marker".into(), c));
                    }
                    for (name, c) in cands {
                        let class: String = name.chars().filter(|ch| !ch.is_ascii_digit()).collect();
                        judge::<TC>(self.rep, &format!("altered_honest_proof/{class}"), label, &c, &eh, &ctx.model, &hist, json!({"alteration": name, "generated_for": hp_name(&hp)}), &param_set(n as usize, k));
                    }
                }
            }
            // ---- (1c) labels that were never published: a first version presented as a tombstoned entry (no value,
            // no previous version: nothing but the existence proof itself binds it), existence forged from the
            // root's own value with no sibling layers or taken from the nearest real node
            let mut never: Vec<Vec<u8>> = alphabet::<TC>().labels.iter().chain(shape_alphabet::<TC>(0).labels.iter()).filter(|l| !ctx.model.users.contains_key(*l)).cloned().collect();
            never.push(b"never-published".to_vec());
            for label in never.iter() {
                for ep in 1..=cur {
                    let base = srv.history_claim(label, 1, 1, &[(vec![], ep)], cur, FutStrategy::Generator).await;
                    let mut forged = base.clone();
                    forged.update_proofs[0].existence_proof = srv.forged_member_root(node_label::<TC>(label, true, 1));
                    let mut relabelled = base.clone();
                    relabelled.update_proofs[0].existence_proof.label = node_label::<TC>(label, true, 1);
                    for (name, cand) in [("nearest_real_node", base), ("nearest_real_node_relabelled", relabelled), ("root_value_no_sibling_layers", forged)] {
                        judge::<TC>(self.rep, "unpublished_label_invented_as_tombstone", label, &cand, &eh, &ctx.model, &hist, json!({"invented_epoch": ep, "forged_existence": name}), &[HistoryParams::Complete, HistoryParams::MostRecent(1), HistoryParams::MostRecent(2)]);
                    }
                }
            }
            if ctx.history.len() >= 2 {
                self.rep.sample(json!({"cfg": TC::NAME, "history": hist(), "epoch": cur}));
            }
        })
    }
}

/// trees that fail to retire a superseded version in the epoch of its replacement
async fn dishonest_trees<TC: ModelCfg>(rep: &Report, total_versions: u64, corrupt_version: u64, delay: Option<u64>) {
    let al = alphabet::<TC>();
    let (a, b) = (al.labels[0].clone(), al.labels[1].clone());
    let mut srv = DishonestServer::<TC>::new().await;
    let mut model = DirModel::default();
    // epoch i: label a gets version i (value v{i}); the stale marker of `corrupt_version` is omitted at its
    // epoch and (optionally) inserted `delay` epochs later; label b is updated in the filler epochs
    let mut pending_stale: Option<(u64, u64)> = None; // (version, due epoch)
    let extra_epochs = delay.unwrap_or(0);
    for e in 1..=(total_versions + extra_epochs) {
        let mut leaves = vec![];
        let mut states = vec![];
        let mut batch: Batch = vec![];
        if e <= total_versions {
            let val = format!("v{e}").into_bytes();
            leaves.push(LeafSpec { label: a.clone(), fresh: true, version: e, value: val.clone() });
            states.push(DishonestServer::<TC>::value_state(&a, e, e, &val));
            batch.push((a.clone(), val));
            if e > 1 {
                if e - 1 == corrupt_version {
                    if let Some(d) = delay {
                        pending_stale = Some((e - 1, e + d));
                    }
                } else {
                    leaves.push(LeafSpec { label: a.clone(), fresh: false, version: e - 1, value: vec![] });
                }
            }
        } else {
            // filler epoch: bystander label b
            let vb = (e - total_versions) as u64;
            let val = format!("w{e}").into_bytes();
            leaves.push(LeafSpec { label: b.clone(), fresh: true, version: vb, value: val.clone() });
            if vb > 1 {
                leaves.push(LeafSpec { label: b.clone(), fresh: false, version: vb - 1, value: vec![] });
            }
            states.push(DishonestServer::<TC>::value_state(&b, vb, e, &val));
            batch.push((b.clone(), val));
        }
        if let Some((v, due)) = pending_stale {
            if due == e {
                leaves.push(LeafSpec { label: a.clone(), fresh: false, version: v, value: vec![] });
                pending_stale = None;
            }
        }
        srv.publish_raw(&leaves, &states).await;
        model.publish(&batch);
    }
    let reader = srv.reader().await;
    let cur = srv.epoch;
    let affected = corrupt_version + 1; // the update proof of this version needs stale(corrupt_version) dated at its own epoch
    let desc = format!("label a with {total_versions} versions; stale marker of version {corrupt_version} {}", match delay {
        None => "never inserted".to_string(),
        Some(d) => format!("inserted {d} epoch(s) late"),
    });
    let mut params = vec![HistoryParams::Complete];
    for k in 1..=total_versions + 1 {
        params.push(HistoryParams::MostRecent(k as usize));
    }
    for p in params {
        rep.eval(1);
        let included = match p {
            HistoryParams::Complete => true,
            HistoryParams::MostRecent(k) => affected + k as u64 > total_versions,
        };
        match reader.key_history(&AkdLabel(a.clone()), p).await {
            Err(_) => {}
            Ok((proof, eh)) => {
                for allow_missing in [false, true] {
                    let vp = if allow_missing { HistoryVerificationParams::AllowMissingValues { history_params: p } } else { HistoryVerificationParams::Default { history_params: p } };
                    match verify_history::<TC>(&a, proof.clone(), &eh, vp) {
                        Ok(list) => {
                            if included {
                                rep.violation(
                                    format!("{}/unretired_version_not_detected/{}", TC::NAME, if delay.is_some() { "late_stale_marker" } else { "missing_stale_marker" }),
                                    json!({"tree": desc, "params": hp_name(&p), "epoch": cur, "accepted": list.iter().map(show_vr).collect::<Vec<_>>()}),
                                );
                            } else {
                                let n = match p {
                                    HistoryParams::MostRecent(n) => Some(n),
                                    _ => None,
                                };
                                if Some(list.clone()) != model.history(&a, n) {
                                    rep.violation(format!("{}/dishonest_tree_wrong_list", TC::NAME), json!({"tree": desc, "params": hp_name(&p)}));
                                }
                            }
                        }
                        Err(_) => {}
                    }
                }
            }
        }
        // the lookup of the label must not succeed with a superseded... (C06/C08 territory); here: the
        // bystander's history is unaffected
    }
    rep.distinct(format!("{}:dishonest:{}", TC::NAME, desc));
    rep.sample_cap(json!({"cfg": TC::NAME, "dishonest_tree": desc}), 8);
}

fn run_dishonest<TC: ModelCfg>(args: &Args, rep: &Report) {
    let max_n = if args.quick() { 4 } else { 6 };
    let mut items = vec![];
    for n in 2..=max_n {
        for cv in 1..n {
            for delay in [None, Some(1u64), Some(2)] {
                items.push((n as u64, cv as u64, delay));
            }
        }
    }
    crate::explore::par_for(args.threads, &items, |_, &(n, cv, delay)| {
        let rt = crate::gate::plain_runtime();
        rt.block_on(dishonest_trees::<TC>(rep, n, cv, delay));
    });
}

pub fn run(args: &Args) -> i32 {
    let rep = Report::new("C07", &args.tier, "exploration");
    let plan = if args.quick() {
        Plan { base_depth: 2, ext_depth: 0, chains: vec![(5, 1)], shape_depth: 1, cache: CacheCfg::None, par: AzksParallelismConfig::disabled() }
    } else {
        Plan { base_depth: 3, ext_depth: 2, chains: vec![(9, 1), (6, 2)], shape_depth: 2, cache: CacheCfg::None, par: AzksParallelismConfig::disabled() }
    };
    let v = V7 { rep: &rep, max_anchor: if args.quick() { 3 } else { 6 } };
    run_plan(args.threads, &plan, &v);
    run_dishonest::<W>(args, &rep);
    run_dishonest::<E>(args, &rep);
    rep.extra("plan", json!(plan_note(&plan)));
    rep.finish(
        "after every epoch of every history, for every label: (1) every claimed version range [s..e] (e up to n+1) assembled from real material with marker lists recomputed for the claimed range and the absences of existing future markers taken from the honest generator or forged at every real ancestor; (2) list-level alterations of the honest Complete / MostRecent(k) proofs: drop newest/oldest k, gaps, duplicates, reversal, swaps, value/epoch/nonce substitution from other versions, tombstone substitution, omitted stale proof, omitted/surplus marker proofs. Each candidate is verified with the real key_history_verify under Complete and MostRecent(N) parameters in both verification modes; oracle: accepted => result equals DirModel's list for that parameter (empty value tolerated only with AllowMissingValues). (3) dishonest trees (harness-side publisher) whose stale marker of version v is missing or 1-2 epochs late: the real key_history must not verify for any parameter that includes version v+1. One evaluation = one (candidate, parameter, mode) verification",
        &["blake3 collision resistance", "VRF uniqueness", "dishonest prover restricted to material derivable from the real tree and key (menu in DESIGN.md §3.6)"],
    )
}
