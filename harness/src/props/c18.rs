//! C18 — a node label is bound to the label, freshness and version it was derived from.

use super::hist::{E, W};
use crate::common::*;
use crate::gate::{GateDb, GateVrf};
use crate::model::*;
use crate::oracles::*;
use crate::report::Report;
use crate::Args;
use akd::append_only_zks::AzksParallelismConfig;
use akd::directory::Directory;
use akd::ecvrf::{Proof, VRFKeyStorage, VRFPublicKey};
use akd::{AkdLabel, AkdValue, Configuration, EpochHash, NodeLabel, VersionFreshness};
use serde_json::json;

fn keys() -> Vec<Vec<u8>> {
    vec![
        test_key(),
        blake3::hash(b"akdmc second vrf key").as_bytes().to_vec(),
        blake3::hash(b"akdmc third vrf key").as_bytes().to_vec(),
    ]
}

fn labels() -> Vec<Vec<u8>> {
    vec![vec![], b"a".to_vec(), b"b".to_vec(), b"ab".to_vec(), b"a\0".to_vec(), (0..300u32).map(|i| (i % 251) as u8).collect()]
}

fn versions() -> Vec<u64> {
    vec![1, 2, 3, 255, 256, (1u64 << 32) - 1, 1u64 << 32, (1u64 << 63) - 1, 1u64 << 63, (1u64 << 63) + 1, u64::MAX]
}

fn fr(f: bool) -> VersionFreshness {
    if f {
        VersionFreshness::Fresh
    } else {
        VersionFreshness::Stale
    }
}

/// the verification a client performs for a claimed node label (public entry points only)
async fn client_verifies<TC: ModelCfg>(pk: &VRFPublicKey, label: &[u8], fresh: bool, version: u64, proof_bytes: &[u8], claimed: &NodeLabel) -> bool {
    let Ok(proof) = Proof::try_from(proof_bytes) else { return false };
    let alpha = TC::get_hash_from_label_input(&AkdLabel(label.to_vec()), fr(fresh), version);
    if pk.verify(&proof, &alpha).is_err() {
        return false;
    }
    // the node label a proof commits to (public accessor on the key-storage trait; key-independent)
    GateVrf::new().get_node_label_from_vrf_proof(proof).await == *claimed
}

async fn sweep<TC: ModelCfg>(rep: &Report, quick: bool) {
    let ks = keys();
    let ls = labels();
    let vs = versions();
    let mut all_labels: Vec<(usize, usize, bool, u64, NodeLabel)> = vec![];
    for (ki, key) in ks.iter().enumerate() {
        let vrf = GateVrf::with_key(key.clone());
        let km = keymat(key);
        // batched derivation of everything at once (get_node_labels: parallel or sequential per build)
        let mut batch = vec![];
        for l in &ls {
            for f in [true, false] {
                for v in &vs {
                    batch.push((AkdLabel(l.clone()), fr(f), *v, AkdValue(b"val".to_vec())));
                }
            }
        }
        let batched = vrf.get_node_labels::<TC>(&batch).await.expect("get_node_labels");
        let find_batched = |l: &[u8], f: bool, v: u64| -> Option<NodeLabel> {
            batched.iter().find(|((bl, bf, bv, _), _)| bl.0 == l && *bf == fr(f) && *bv == v).map(|(_, nl)| *nl)
        };
        if batched.len() != batch.len() {
            rep.violation(format!("{}/get_node_labels_wrong_count", TC::NAME), json!({"asked": batch.len(), "got": batched.len()}));
        }
        for (li, l) in ls.iter().enumerate() {
            for f in [true, false] {
                for &v in &vs {
                    rep.eval(1);
                    let al = AkdLabel(l.clone());
                    let n1 = vrf.get_node_label::<TC>(&al, fr(f), v).await.unwrap();
                    let n2 = vrf.get_node_label::<TC>(&al, fr(f), v).await.unwrap();
                    let p1 = vrf.get_label_proof::<TC>(&al, fr(f), v).await.unwrap();
                    let p2 = vrf.get_label_proof::<TC>(&al, fr(f), v).await.unwrap();
                    let n3 = vrf.get_node_label_from_vrf_proof(p1.clone()).await;
                    let n4 = find_batched(l, f, v);
                    let ctx = || json!({"key": ki, "label": show_bytes(l), "fresh": f, "version": v});
                    if n1 != n2 || p1.to_bytes() != p2.to_bytes() {
                        rep.violation(format!("{}/derivation_not_deterministic", TC::NAME), ctx());
                    }
                    if n1 != n3 || Some(n1) != n4 || n1.label_len != 256 {
                        rep.violation(format!("{}/node_label_differs_between_derivation_paths", TC::NAME), json!({"ctx": ctx(), "get_node_label": format!("{n1}"), "from_proof": format!("{n3}"), "batched": format!("{n4:?}")}));
                    }
                    let pb = p1.to_bytes().to_vec();
                    if !client_verifies::<TC>(&km.pk, l, f, v, &pb, &n1).await {
                        rep.violation(format!("{}/honest_vrf_proof_rejected", TC::NAME), ctx());
                    }
                    all_labels.push((ki, li, f, v, n1));
                    rep.distinct(format!("{}:{}", TC::NAME, hex::encode(&n1.label_val[..8])));
                    // ---- alterations at verification, deviation 1
                    for (kj, other) in ks.iter().enumerate() {
                        if kj != ki && client_verifies::<TC>(&keymat(other).pk, l, f, v, &pb, &n1).await {
                            rep.violation(format!("{}/verifies_under_another_key", TC::NAME), ctx());
                        }
                    }
                    for (lj, ol) in ls.iter().enumerate() {
                        if lj != li && client_verifies::<TC>(&km.pk, ol, f, v, &pb, &n1).await {
                            rep.violation(format!("{}/verifies_for_another_label", TC::NAME), json!({"ctx": ctx(), "other_label": show_bytes(ol)}));
                        }
                    }
                    if client_verifies::<TC>(&km.pk, l, !f, v, &pb, &n1).await {
                        rep.violation(format!("{}/verifies_for_other_freshness", TC::NAME), ctx());
                    }
                    for &ov in &vs {
                        if ov != v && client_verifies::<TC>(&km.pk, l, f, ov, &pb, &n1).await {
                            rep.violation(format!("{}/verifies_for_another_version", TC::NAME), json!({"ctx": ctx(), "other_version": ov}));
                        }
                    }
                    // every single-bit flip of the version: must not verify, and must be a different node label
                    for bit in 0..64 {
                        rep.eval(1);
                        let ov = v ^ (1u64 << bit);
                        if client_verifies::<TC>(&km.pk, l, f, ov, &pb, &n1).await {
                            rep.violation(format!("{}/verifies_for_version_with_one_bit_flipped", TC::NAME), json!({"ctx": ctx(), "bit": bit, "other_version": ov}));
                        }
                        if bit >= 56 || li == 1 {
                            let on = vrf.get_node_label::<TC>(&al, fr(f), ov).await.unwrap();
                            if on == n1 {
                                rep.violation(format!("{}/node_label_ignores_a_version_bit", TC::NAME), json!({"ctx": ctx(), "bit": bit}));
                            }
                        }
                    }
                    // every single-bit flip of (the first and last 2 bytes of) the label
                    let lb: Vec<usize> = (0..l.len().min(2)).chain(l.len().saturating_sub(2)..l.len()).collect();
                    for &bi in &lb {
                        for bit in 0..8 {
                            rep.eval(1);
                            let mut ol = l.clone();
                            ol[bi] ^= 1 << bit;
                            if client_verifies::<TC>(&km.pk, &ol, f, v, &pb, &n1).await {
                                rep.violation(format!("{}/verifies_for_label_with_one_bit_flipped", TC::NAME), json!({"ctx": ctx(), "byte": bi, "bit": bit}));
                            }
                        }
                    }
                    // every single-bit flip of the claimed node label
                    let heavy = !quick || (li <= 1 && v <= 2) || v == u64::MAX;
                    if heavy {
                        for bit in 0..256 {
                            rep.eval(1);
                            let mut c = n1;
                            c.label_val[bit / 8] ^= 1 << (7 - bit % 8);
                            if client_verifies::<TC>(&km.pk, l, f, v, &pb, &c).await {
                                rep.violation(format!("{}/altered_node_label_accepted", TC::NAME), json!({"ctx": ctx(), "bit": bit}));
                            }
                        }
                        // every single-bit flip and byte replacement of the proof bytes: rejected, or the same node label
                        for i in 0..pb.len() {
                            let mut cands: Vec<u8> = (0..8).map(|b| pb[i] ^ (1 << b)).collect();
                            cands.extend([0x00, 0xff]);
                            cands.sort();
                            cands.dedup();
                            for nb in cands {
                                if nb == pb[i] {
                                    continue;
                                }
                                rep.eval(1);
                                let mut q = pb.clone();
                                q[i] = nb;
                                if let Ok(proof) = Proof::try_from(&q[..]) {
                                    let alpha = TC::get_hash_from_label_input(&al, fr(f), v);
                                    if km.pk.verify(&proof, &alpha).is_ok() {
                                        if vrf.get_node_label_from_vrf_proof(proof).await != n1 {
                                            rep.violation(format!("{}/altered_proof_verifies_to_a_different_node_label", TC::NAME), json!({"ctx": ctx(), "byte": i, "new": nb}));
                                        } else {
                                            rep.count("altered_proof_same_label", 1);
                                        }
                                    }
                                }
                            }
                        }
                        // truncated / extended proofs
                        for n in [0usize, 1, 79, 81, 160] {
                            let mut q = pb.clone();
                            q.resize(n, 0);
                            if client_verifies::<TC>(&km.pk, l, f, v, &q, &n1).await {
                                rep.violation(format!("{}/wrong_size_proof_accepted", TC::NAME), json!({"ctx": ctx(), "len": n}));
                            }
                        }
                    }
                }
            }
        }
    }
    // pairwise distinct node labels: across keys for the same tuple, and across tuples under one key
    let mut seen = std::collections::HashMap::new();
    for (ki, li, f, v, nl) in &all_labels {
        if let Some(prev) = seen.insert(nl.label_val, (*ki, *li, *f, *v)) {
            rep.violation(format!("{}/node_label_collision", TC::NAME), json!({"a": format!("{prev:?}"), "b": format!("{:?}", (ki, li, f, v))}));
        }
    }
    // value commitments under different keys differ
    let nl = all_labels[0].4;
    let mut commits = std::collections::HashSet::new();
    for key in &ks {
        let ck = TC::hash(key);
        for v in [1u64, 2] {
            let c = TC::compute_fresh_azks_value(&ck, &nl, v, &AkdValue(b"value".to_vec()));
            let n = TC::get_commitment_nonce(&ck, &nl, v, &AkdValue(b"value".to_vec()));
            rep.eval(1);
            if !commits.insert((c.0, v)) {
                rep.violation(format!("{}/commitment_collision_across_keys", TC::NAME), json!({"version": v}));
            }
            // the commitment is the one the client recomputes from value and nonce
            let leaf_srv = TC::hash_leaf_with_commitment(c, 7);
            let leaf_cli = TC::hash_leaf_with_value(&AkdValue(b"value".to_vec()), 7, &n);
            if leaf_srv.0 != leaf_cli.0 {
                rep.violation(format!("{}/client_commitment_differs_from_server_commitment", TC::NAME), json!({"version": v}));
            }
        }
    }
    rep.sample(json!({"cfg": TC::NAME, "keys": ks.len(), "labels": ls.iter().map(|l| show_bytes(l)).collect::<Vec<_>>(), "versions": vs, "tuples": all_labels.len()}));
}

/// directory level: a one/two-leaf directory under each key; lookups verify only under the right key,
/// and a proof with its VRF proof bytes altered is rejected or yields the same result
async fn directory_level<TC: ModelCfg>(rep: &Report, quick: bool) {
    let ks = keys();
    for (ki, key) in ks.iter().enumerate() {
        let db = GateDb::new();
        let vrf = GateVrf::with_key(key.clone());
        let dir = Directory::<TC, _, _>::new(manager(&db, CacheCfg::None), vrf.clone(), AzksParallelismConfig::disabled()).await.unwrap();
        dir.publish(vec![(AkdLabel(b"a".to_vec()), AkdValue(b"x".to_vec())), (AkdLabel(b"b".to_vec()), AkdValue(b"x".to_vec()))]).await.unwrap();
        let eh2 = dir.publish(vec![(AkdLabel(b"a".to_vec()), AkdValue(b"y".to_vec()))]).await.unwrap();
        let pk = dir.get_public_key().await.unwrap();
        if pk.as_bytes() != keymat(key).pk.as_bytes() {
            rep.violation(format!("{}/directory_public_key_differs", TC::NAME), json!({"key": ki}));
        }
        let (proof, eh) = dir.lookup(AkdLabel(b"a".to_vec())).await.unwrap();
        let verify = |pkb: &[u8], p: akd::LookupProof, e: &EpochHash| akd::client::lookup_verify::<TC>(pkb, e.1, e.0, AkdLabel(b"a".to_vec()), p).map(|r| (r.value.0, r.version, r.epoch));
        rep.eval(1);
        let truth = (b"y".to_vec(), 2u64, 2u64);
        if verify(pk.as_bytes(), proof.clone(), &eh).ok() != Some(truth.clone()) || eh != eh2 {
            rep.violation(format!("{}/honest_lookup_rejected_under_own_key", TC::NAME), json!({"key": ki}));
        }
        for (kj, other) in ks.iter().enumerate() {
            if kj != ki {
                rep.eval(1);
                if verify(keymat(other).pk.as_bytes(), proof.clone(), &eh).is_ok() {
                    rep.violation(format!("{}/lookup_verifies_under_another_key", TC::NAME), json!({"key": ki, "other": kj}));
                }
            }
        }
        // altered VRF proof bytes in each of the three positions
        let stride = if quick { 3 } else { 1 };
        for which in 0..3 {
            let orig = match which {
                0 => proof.existence_vrf_proof.clone(),
                1 => proof.marker_vrf_proof.clone(),
                _ => proof.freshness_vrf_proof.clone(),
            };
            for i in (0..orig.len()).step_by(stride) {
                for nb in [orig[i] ^ 1, orig[i] ^ 0x80, 0x00, 0xff] {
                    if nb == orig[i] {
                        continue;
                    }
                    rep.eval(1);
                    let mut q = orig.clone();
                    q[i] = nb;
                    let mut c = proof.clone();
                    match which {
                        0 => c.existence_vrf_proof = q,
                        1 => c.marker_vrf_proof = q,
                        _ => c.freshness_vrf_proof = q,
                    }
                    if let Ok(r) = verify(pk.as_bytes(), c, &eh) {
                        if r != truth {
                            rep.violation(format!("{}/lookup_with_altered_vrf_proof_accepted_with_other_result", TC::NAME), json!({"key": ki, "which": which, "byte": i}));
                        }
                    }
                }
            }
        }
        // the claimed node labels inside the proofs (what the VRF outputs are compared with): every alteration of
        // the label bits or of the label LENGTH alone must make verification fail, for the lookup proof's three
        // claims and for every claim of a history proof
        {
            let alter = |nl: &NodeLabel| -> Vec<(String, NodeLabel)> {
                let mut out = vec![];
                for len in [255u32, 254, 128, 1, 0] {
                    out.push((format!("label_len_{len}"), NodeLabel { label_val: nl.label_val, label_len: len }));
                }
                for bit in (0..256usize).step_by(if quick { 37 } else { 5 }).chain([255usize]) {
                    let mut v = nl.label_val;
                    v[bit / 8] ^= 1 << (7 - bit % 8);
                    out.push(("label_bit_flipped".into(), NodeLabel { label_val: v, label_len: nl.label_len }));
                }
                out
            };
            for (site, base) in [("existence", proof.existence_proof.label), ("marker", proof.marker_proof.label), ("freshness", proof.freshness_proof.label)] {
                for (name, nl) in alter(&base) {
                    rep.eval(1);
                    let mut c = proof.clone();
                    match site {
                        "existence" => c.existence_proof.label = nl,
                        "marker" => c.marker_proof.label = nl,
                        _ => c.freshness_proof.label = nl,
                    }
                    if verify(pk.as_bytes(), c, &eh).is_ok() {
                        rep.violation(format!("{}/lookup_with_altered_claimed_node_label_accepted/{}/{}", TC::NAME, site, name.trim_end_matches(char::is_numeric)), json!({"key": ki, "alteration": name}));
                    }
                }
            }
            let (hp, heh) = dir.key_history(&AkdLabel(b"a".to_vec()), akd::HistoryParams::Complete).await.unwrap();
            let hverify = |p: akd::HistoryProof| akd::client::key_history_verify::<TC>(pk.as_bytes(), heh.1, heh.0, AkdLabel(b"a".to_vec()), p, akd::HistoryVerificationParams::AllowMissingValues { history_params: akd::HistoryParams::Complete });
            rep.eval(1);
            if hverify(hp.clone()).is_err() {
                rep.violation(format!("{}/honest_history_rejected_under_own_key", TC::NAME), json!({"key": ki}));
            }
            // claim sites of the history proof: (description, accessor)
            let n_up = hp.update_proofs.len();
            let n_past = hp.existence_of_past_marker_proofs.len();
            let n_fut = hp.non_existence_of_future_marker_proofs.len();
            let mut sites: Vec<(String, usize, usize)> = vec![];
            for i in 0..n_up {
                sites.push(("update_existence".into(), 0, i));
                if hp.update_proofs[i].previous_version_proof.is_some() {
                    sites.push(("update_previous_version".into(), 1, i));
                }
            }
            for i in 0..n_past {
                sites.push(("past_marker".into(), 2, i));
            }
            for i in 0..n_fut {
                sites.push(("future_marker_absence".into(), 3, i));
            }
            for (sname, kind, i) in sites {
                let base = match kind {
                    0 => hp.update_proofs[i].existence_proof.label,
                    1 => hp.update_proofs[i].previous_version_proof.as_ref().unwrap().label,
                    2 => hp.existence_of_past_marker_proofs[i].label,
                    _ => hp.non_existence_of_future_marker_proofs[i].label,
                };
                for (name, nl) in alter(&base) {
                    rep.eval(1);
                    let mut c = hp.clone();
                    match kind {
                        0 => c.update_proofs[i].existence_proof.label = nl,
                        1 => c.update_proofs[i].previous_version_proof.as_mut().unwrap().label = nl,
                        2 => c.existence_of_past_marker_proofs[i].label = nl,
                        _ => c.non_existence_of_future_marker_proofs[i].label = nl,
                    }
                    if hverify(c).is_ok() {
                        rep.violation(format!("{}/history_with_altered_claimed_node_label_accepted/{}/{}", TC::NAME, sname, name.trim_end_matches(char::is_numeric)), json!({"key": ki, "alteration": name, "index": i}));
                    }
                }
            }
        }
        // VRF proofs exchanged between positions / labels / versions
        let (pb, _) = dir.lookup(AkdLabel(b"b".to_vec())).await.unwrap();
        let swaps: Vec<(&str, akd::LookupProof)> = vec![
            ("existence<-marker", akd::LookupProof { existence_vrf_proof: proof.marker_vrf_proof.clone(), ..proof.clone() }),
            ("existence<-freshness", akd::LookupProof { existence_vrf_proof: proof.freshness_vrf_proof.clone(), ..proof.clone() }),
            ("freshness<-existence", akd::LookupProof { freshness_vrf_proof: proof.existence_vrf_proof.clone(), ..proof.clone() }),
            ("marker<-existence", akd::LookupProof { marker_vrf_proof: proof.existence_vrf_proof.clone(), ..proof.clone() }),
            ("existence<-other_label", akd::LookupProof { existence_vrf_proof: pb.existence_vrf_proof.clone(), ..proof.clone() }),
            ("freshness<-other_label", akd::LookupProof { freshness_vrf_proof: pb.freshness_vrf_proof.clone(), ..proof.clone() }),
        ];
        for (name, c) in swaps {
            rep.eval(1);
            // version 2's marker is version 2 itself: existence<->marker exchange is the same proof there
            if let Ok(r) = verify(pk.as_bytes(), c, &eh) {
                if r != truth {
                    rep.violation(format!("{}/lookup_with_exchanged_vrf_proof_accepted/{}", TC::NAME, name), json!({"key": ki}));
                }
            }
        }
    }
}

/// get_node_labels runs its VRF evaluations as separate tasks when akd is built with `parallel_vrf`; on a
/// current-thread runtime they always complete in spawn order, so this part runs the real function on a
/// multi-thread runtime (a free-running, i.e. SAMPLED, set of completion orders — not exhaustive): whatever the
/// completion order, every returned node label must be the one derived for the input it is paired with
fn batched_on_multithread<TC: ModelCfg>(rep: &Report, quick: bool) {
    let rt = tokio::runtime::Builder::new_multi_thread().worker_threads(8).enable_time().build().unwrap();
    let reps = if quick { 20 } else { 200 };
    let mut batch = vec![];
    for i in 0..16 {
        for (f, v) in [(true, 1u64), (false, 1), (true, 2 + i as u64)] {
            batch.push((AkdLabel(format!("mt{i}").into_bytes()), fr(f), v, AkdValue(format!("value-{i}-{v}").into_bytes())));
        }
    }
    let vrf = GateVrf::new();
    let mut orders = std::collections::BTreeSet::new();
    for _ in 0..reps {
        let got = rt.block_on(vrf.get_node_labels::<TC>(&batch)).expect("get_node_labels");
        rep.eval(1);
        if got.len() != batch.len() {
            rep.violation(format!("{}/multithread/get_node_labels_wrong_count", TC::NAME), json!({"asked": batch.len(), "got": got.len()}));
            continue;
        }
        let order: Vec<usize> = got.iter().map(|((l, f, v, _), _)| batch.iter().position(|(bl, bf, bv, _)| bl == l && bf == f && bv == v).unwrap_or(usize::MAX)).collect();
        orders.insert(order);
        for ((l, f, v, val), nl) in got.iter() {
            let want = node_label::<TC>(l, *f == VersionFreshness::Fresh, *v);
            let val_ok = batch.iter().any(|(bl, bf, bv, bval)| bl == l && bf == f && bv == v && bval == val);
            if *nl != want || !val_ok {
                rep.violation(
                    format!("{}/multithread/batched_node_label_not_bound_to_its_input", TC::NAME),
                    json!({"label": show_bytes(l), "fresh": *f == VersionFreshness::Fresh, "version": v, "got": format!("{nl}"), "want": format!("{want}")}),
                );
                break;
            }
        }
    }
    rep.count(&format!("{}:multithread_distinct_completion_orders_observed", TC::NAME), orders.len() as u64);
}

pub fn run(args: &Args) -> i32 {
    let rep = Report::new("C18", &args.tier, "exploration");
    let quick = args.quick();
    std::thread::scope(|s| {
        let rep = &rep;
        s.spawn(move || crate::gate::plain_runtime().block_on(sweep::<W>(rep, quick)));
        s.spawn(move || crate::gate::plain_runtime().block_on(sweep::<E>(rep, quick)));
        s.spawn(move || crate::gate::plain_runtime().block_on(directory_level::<W>(rep, quick)));
        s.spawn(move || crate::gate::plain_runtime().block_on(directory_level::<E>(rep, quick)));
    });
    batched_on_multithread::<W>(&rep, quick);
    batched_on_multithread::<E>(&rep, quick);
    rep.finish(
        "3 keys x 6 labels (empty, a, b, ab, a\\0, 300 bytes) x 2 freshness values x 8 versions (1,2,3,255,256,2^32-1,2^32,2^64-1) x 2 configurations: get_node_label = get_node_labels (batched) = get_node_label_from_vrf_proof(get_label_proof), twice (determinism); the proof verifies under the public key and yields that label. Deviation 1 at verification: every other key / label / freshness / version of the alphabet substituted; every single-bit flip of the claimed node label; every single-bit flip and 0x00/0xff replacement of each proof byte (rejected or same label); wrong-size proofs; node labels pairwise distinct, commitments distinct across keys and equal between server and client formulas. Directory level: lookups verify only under the directory's key; altered or exchanged VRF proof bytes in a lookup proof are rejected or give the same result, and every alteration (label bits, or the label LENGTH alone) of a claimed node label inside a lookup or history proof is rejected (this goes through the library's own label verification). Supplementary, SAMPLED (not exhaustive): the batched derivation is also run 20 (thorough 200) times on a multi-thread runtime, because its parallel tasks can only complete out of order there; every returned label must belong to the input it is paired with. One evaluation = one tuple or one alteration",
        &["enumeration covers this alphabet and its deviation-1 neighbourhood only: it says nothing about the cryptographic soundness of the VRF over the full input space", "blake3 collision resistance"],
    )
}
