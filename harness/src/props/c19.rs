//! C19 — proofs survive protobuf encoding unchanged; malformed input is rejected cleanly.

use super::hist::*;
use crate::common::*;
use crate::model::*;
use crate::oracles::*;
use crate::report::Report;
use crate::Args;
use akd::append_only_zks::AzksParallelismConfig;
use akd::local_auditing::{AuditBlob, AuditBlobName};
use akd::{AkdLabel, AppendOnlyProof, EpochHash, HistoryParams, HistoryProof, HistoryVerificationParams, LookupProof, MembershipProof, NonMembershipProof, SingleAppendOnlyProof};
use akd_core::proto::specs::types as pb;
use protobuf::Message;
use serde_json::json;
use std::future::Future;
use std::panic::{catch_unwind, AssertUnwindSafe};
use std::pin::Pin;

// ------------------------------------------------------------------------------------------
// a tiny protobuf wire-format tree with the schema of types.proto (for field-level surgery)

#[derive(Clone, Copy, PartialEq, Debug)]
enum Kind {
    Varint,
    Bytes,
    Msg(&'static str),
}

fn schema(ty: &str) -> &'static [(u32, Kind, &'static str)] {
    match ty {
        "NodeLabel" => &[(1, Kind::Bytes, "label_val"), (2, Kind::Varint, "label_len")],
        "AzksElement" => &[(1, Kind::Msg("NodeLabel"), "label"), (2, Kind::Bytes, "value")],
        "SiblingProof" => &[(1, Kind::Msg("NodeLabel"), "label"), (2, Kind::Msg("AzksElement"), "siblings"), (3, Kind::Varint, "direction")],
        "MembershipProof" => &[(1, Kind::Msg("NodeLabel"), "label"), (2, Kind::Bytes, "hash_val"), (3, Kind::Msg("SiblingProof"), "sibling_proofs")],
        "NonMembershipProof" => &[
            (1, Kind::Msg("NodeLabel"), "label"),
            (2, Kind::Msg("NodeLabel"), "longest_prefix"),
            (3, Kind::Msg("AzksElement"), "longest_prefix_children"),
            (4, Kind::Msg("MembershipProof"), "longest_prefix_membership_proof"),
        ],
        "LookupProof" => &[
            (1, Kind::Varint, "epoch"),
            (2, Kind::Bytes, "value"),
            (3, Kind::Varint, "version"),
            (4, Kind::Bytes, "existence_vrf_proof"),
            (5, Kind::Msg("MembershipProof"), "existence_proof"),
            (6, Kind::Bytes, "marker_vrf_proof"),
            (7, Kind::Msg("MembershipProof"), "marker_proof"),
            (8, Kind::Bytes, "freshness_vrf_proof"),
            (9, Kind::Msg("NonMembershipProof"), "freshness_proof"),
            (10, Kind::Bytes, "commitment_nonce"),
        ],
        "UpdateProof" => &[
            (1, Kind::Varint, "epoch"),
            (2, Kind::Bytes, "value"),
            (3, Kind::Varint, "version"),
            (4, Kind::Bytes, "existence_vrf_proof"),
            (5, Kind::Msg("MembershipProof"), "existence_proof"),
            (6, Kind::Bytes, "previous_version_vrf_proof"),
            (7, Kind::Msg("MembershipProof"), "previous_version_proof"),
            (8, Kind::Bytes, "commitment_nonce"),
        ],
        "HistoryProof" => &[
            (1, Kind::Msg("UpdateProof"), "update_proofs"),
            (2, Kind::Bytes, "past_marker_vrf_proofs"),
            (3, Kind::Msg("MembershipProof"), "existence_of_past_marker_proofs"),
            (4, Kind::Bytes, "future_marker_vrf_proofs"),
            (5, Kind::Msg("NonMembershipProof"), "non_existence_of_future_marker_proofs"),
        ],
        "SingleAppendOnlyProof" => &[(1, Kind::Msg("AzksElement"), "inserted"), (2, Kind::Msg("AzksElement"), "unchanged_nodes")],
        "AppendOnlyProof" => &[(1, Kind::Msg("SingleAppendOnlyProof"), "proofs"), (2, Kind::Varint, "epochs")],
        _ => &[],
    }
}

#[derive(Clone, Debug)]
enum WVal {
    Varint(u64),
    Bytes(Vec<u8>),
    Msg(&'static str, Vec<WField>),
}
#[derive(Clone, Debug)]
struct WField {
    num: u32,
    name: &'static str,
    val: WVal,
}

fn read_varint(b: &[u8], pos: &mut usize) -> Option<u64> {
    let mut v = 0u64;
    let mut shift = 0;
    loop {
        let byte = *b.get(*pos)?;
        *pos += 1;
        v |= ((byte & 0x7f) as u64) << shift;
        if byte & 0x80 == 0 {
            return Some(v);
        }
        shift += 7;
        if shift > 63 {
            return None;
        }
    }
}
fn write_varint(mut v: u64, out: &mut Vec<u8>) {
    loop {
        let b = (v & 0x7f) as u8;
        v >>= 7;
        if v == 0 {
            out.push(b);
            return;
        }
        out.push(b | 0x80);
    }
}

fn wparse(b: &[u8], ty: &'static str) -> Option<Vec<WField>> {
    let sch = schema(ty);
    let mut pos = 0;
    let mut out = vec![];
    while pos < b.len() {
        let tag = read_varint(b, &mut pos)?;
        let num = (tag >> 3) as u32;
        let wt = tag & 7;
        let (_, kind, name) = sch.iter().find(|(n, _, _)| *n == num)?;
        match (wt, kind) {
            (0, Kind::Varint) => out.push(WField { num, name, val: WVal::Varint(read_varint(b, &mut pos)?) }),
            (2, Kind::Varint) => {
                // packed repeated varints
                let len = read_varint(b, &mut pos)? as usize;
                let end = pos.checked_add(len)?;
                while pos < end {
                    out.push(WField { num, name, val: WVal::Varint(read_varint(b, &mut pos)?) });
                }
            }
            (2, Kind::Bytes) => {
                let len = read_varint(b, &mut pos)? as usize;
                let end = pos.checked_add(len)?;
                out.push(WField { num, name, val: WVal::Bytes(b.get(pos..end)?.to_vec()) });
                pos = end;
            }
            (2, Kind::Msg(t)) => {
                let len = read_varint(b, &mut pos)? as usize;
                let end = pos.checked_add(len)?;
                out.push(WField { num, name, val: WVal::Msg(t, wparse(b.get(pos..end)?, t)?) });
                pos = end;
            }
            _ => return None,
        }
    }
    Some(out)
}

fn wencode(fields: &[WField]) -> Vec<u8> {
    let mut out = vec![];
    for f in fields {
        match &f.val {
            WVal::Varint(v) => {
                write_varint(((f.num as u64) << 3) | 0, &mut out);
                write_varint(*v, &mut out);
            }
            WVal::Bytes(b) => {
                write_varint(((f.num as u64) << 3) | 2, &mut out);
                write_varint(b.len() as u64, &mut out);
                out.extend_from_slice(b);
            }
            WVal::Msg(_, fs) => {
                let inner = wencode(fs);
                write_varint(((f.num as u64) << 3) | 2, &mut out);
                write_varint(inner.len() as u64, &mut out);
                out.extend_from_slice(&inner);
            }
        }
    }
    out
}

/// every single-field surgery at every nesting level: (description, mutated tree)
fn surgeries(fields: &[WField], ty: &'static str, path: &str, out: &mut Vec<(String, Vec<WField>)>) {
    for i in 0..fields.len() {
        let here = format!("{path}/{}[{i}]", fields[i].name);
        // delete this field occurrence
        let mut d = fields.to_vec();
        d.remove(i);
        out.push((format!("delete {here}"), d));
        // duplicate this field occurrence
        let mut d = fields.to_vec();
        d.insert(i, fields[i].clone());
        out.push((format!("duplicate {here}"), d));
        match &fields[i].val {
            WVal::Msg(t, inner) => {
                let mut sub = vec![];
                surgeries(inner, t, &here, &mut sub);
                for (desc, m) in sub {
                    let mut d = fields.to_vec();
                    d[i].val = WVal::Msg(t, m);
                    out.push((desc, d));
                }
            }
            WVal::Varint(_) if ty == "NodeLabel" && fields[i].name == "label_len" => {
                for v in [257u64, 4294967295, 1 << 32] {
                    let mut d = fields.to_vec();
                    d[i].val = WVal::Varint(v);
                    out.push((format!("set {here}={v}"), d));
                }
            }
            WVal::Varint(_) if fields[i].name == "direction" => {
                for v in [2u64, 3, 255, 4294967295] {
                    let mut d = fields.to_vec();
                    d[i].val = WVal::Varint(v);
                    out.push((format!("set {here}={v}"), d));
                }
            }
            WVal::Bytes(b) if ty == "NodeLabel" && fields[i].name == "label_val" => {
                for n in [33usize, 64] {
                    let mut nb = b.clone();
                    nb.resize(n, 0xab);
                    let mut d = fields.to_vec();
                    d[i].val = WVal::Bytes(nb);
                    out.push((format!("resize {here} to {n} bytes"), d));
                }
            }
            WVal::Bytes(b) if matches!(fields[i].name, "value" | "hash_val") && (ty == "AzksElement" || ty == "MembershipProof") => {
                for n in [0usize, 31, 33] {
                    let mut nb = b.clone();
                    nb.resize(n, 0xcd);
                    let mut d = fields.to_vec();
                    d[i].val = WVal::Bytes(nb);
                    out.push((format!("resize {here} to {n} bytes"), d));
                }
            }
            WVal::Bytes(b) if fields[i].name.ends_with("vrf_proof") || fields[i].name.ends_with("vrf_proofs") => {
                for n in [0usize, 79, 81] {
                    let mut nb = b.clone();
                    nb.resize(n, 0);
                    let mut d = fields.to_vec();
                    d[i].val = WVal::Bytes(nb);
                    out.push((format!("resize {here} to {n} bytes"), d));
                }
            }
            _ => {}
        }
    }
}

// ------------------------------------------------------------------------------------------
// decoders (real code) under catch_unwind

#[derive(Clone, Debug, PartialEq)]
enum Dec<T> {
    Panic(String),
    Err,
    Ok(T),
}

fn guarded<T>(f: impl FnOnce() -> Option<T>) -> Dec<T> {
    match catch_unwind(AssertUnwindSafe(f)) {
        Ok(Some(v)) => Dec::Ok(v),
        Ok(None) => Dec::Err,
        Err(p) => Dec::Panic(p.downcast_ref::<String>().cloned().or_else(|| p.downcast_ref::<&str>().map(|s| s.to_string())).unwrap_or("panic".into())),
    }
}

fn dec_lookup(b: &[u8]) -> Dec<LookupProof> {
    guarded(|| pb::LookupProof::parse_from_bytes(b).ok().and_then(|m| LookupProof::try_from(&m).ok()))
}
fn dec_history(b: &[u8]) -> Dec<HistoryProof> {
    guarded(|| pb::HistoryProof::parse_from_bytes(b).ok().and_then(|m| HistoryProof::try_from(&m).ok()))
}
fn dec_audit(b: &[u8]) -> Dec<AppendOnlyProof> {
    guarded(|| pb::AppendOnlyProof::parse_from_bytes(b).ok().and_then(|m| AppendOnlyProof::try_from(&m).ok()))
}
fn dec_single(b: &[u8]) -> Dec<SingleAppendOnlyProof> {
    guarded(|| pb::SingleAppendOnlyProof::parse_from_bytes(b).ok().and_then(|m| SingleAppendOnlyProof::try_from(&m).ok()))
}

macro_rules! roundtrip {
    ($rep:expr, $cfg:expr, $name:expr, $val:expr, $pbty:ty, $ty:ty) => {{
        $rep.eval(1);
        let v: &$ty = $val;
        let msg: $pbty = v.into();
        let ok = match msg.write_to_bytes() {
            Ok(bytes) => match <$pbty>::parse_from_bytes(&bytes) {
                Ok(m2) => match <$ty>::try_from(&m2) {
                    Ok(back) => &back == v,
                    Err(_) => false,
                },
                Err(_) => false,
            },
            Err(_) => false,
        };
        if !ok {
            $rep.violation(format!("{}/roundtrip_not_identity/{}", $cfg, $name), json!({"type": $name, "value": format!("{:?}", v).chars().take(400).collect::<String>()}));
        }
    }};
}

fn roundtrip_membership<TC: ModelCfg>(rep: &Report, p: &MembershipProof) {
    roundtrip!(rep, TC::NAME, "MembershipProof", p, pb::MembershipProof, MembershipProof);
    roundtrip!(rep, TC::NAME, "NodeLabel", &p.label, pb::NodeLabel, akd::NodeLabel);
    for s in &p.sibling_proofs {
        roundtrip!(rep, TC::NAME, "SiblingProof", s, pb::SiblingProof, akd::SiblingProof);
        roundtrip!(rep, TC::NAME, "AzksElement", &s.siblings[0], pb::AzksElement, akd::AzksElement);
        roundtrip!(rep, TC::NAME, "NodeLabel", &s.siblings[0].label, pb::NodeLabel, akd::NodeLabel);
    }
}
fn roundtrip_nonmembership<TC: ModelCfg>(rep: &Report, p: &NonMembershipProof) {
    roundtrip!(rep, TC::NAME, "NonMembershipProof", p, pb::NonMembershipProof, NonMembershipProof);
    for c in &p.longest_prefix_children {
        roundtrip!(rep, TC::NAME, "AzksElement", c, pb::AzksElement, akd::AzksElement);
    }
    roundtrip_membership::<TC>(rep, &p.longest_prefix_membership_proof);
}

struct Collected {
    lookups: Vec<(String, Vec<u8>, Vec<u8>, EpochHash)>,          // cfg, label, bytes, epoch hash
    histories: Vec<(String, Vec<u8>, Vec<u8>, EpochHash, usize)>, // + number of versions
    audits: Vec<(String, Vec<u8>, Vec<D32>)>,
}

struct V19<'r> {
    rep: &'r Report,
    col: &'r std::sync::Mutex<Collected>,
}

impl<'r, TC: ModelCfg> HistVisitor<TC> for V19<'r> {
    fn visit<'a>(&'a self, ctx: &'a HistCtx<TC>) -> Pin<Box<dyn Future<Output = ()> + 'a>> {
        Box::pin(async move {
            if !matches!(ctx.last, Some(MPublish::NewEpoch(_))) {
                return;
            }
            let dir = new_dir::<TC>(&ctx.db, &ctx.vrf, CacheCfg::None, AzksParallelismConfig::disabled()).await;
            let cur = ctx.model.epoch;
            for (label, versions) in ctx.model.users.iter() {
                if let Ok((p, eh)) = dir.lookup(AkdLabel(label.clone())).await {
                    roundtrip!(self.rep, TC::NAME, "LookupProof", &p, pb::LookupProof, LookupProof);
                    roundtrip_membership::<TC>(self.rep, &p.existence_proof);
                    roundtrip_membership::<TC>(self.rep, &p.marker_proof);
                    roundtrip_nonmembership::<TC>(self.rep, &p.freshness_proof);
                    // the wasm client path: bytes -> message -> proof -> lookup_verify
                    let bytes = pb::LookupProof::from(&p).write_to_bytes().unwrap();
                    let orig = verify_lookup::<TC>(label, p.clone(), &eh);
                    let via_bytes = match dec_lookup(&bytes) {
                        Dec::Ok(p2) => verify_lookup::<TC>(label, p2, &eh),
                        other => Err(format!("{other:?}").chars().take(100).collect()),
                    };
                    self.rep.eval(1);
                    if orig != via_bytes || orig.is_err() {
                        self.rep.violation(format!("{}/decoded_lookup_verifies_differently", TC::NAME), json!({"history": show_history(&ctx.history), "label": show_bytes(label), "orig": format!("{orig:?}"), "decoded": format!("{via_bytes:?}")}));
                    }
                    let mut c = self.col.lock().unwrap();
                    if c.lookups.len() < 400 {
                        c.lookups.push((TC::NAME.into(), label.clone(), bytes, eh.clone()));
                    }
                }
                for hp in [HistoryParams::Complete, HistoryParams::MostRecent(1)] {
                    if let Ok((p, eh)) = dir.key_history(&AkdLabel(label.clone()), hp).await {
                        roundtrip!(self.rep, TC::NAME, "HistoryProof", &p, pb::HistoryProof, HistoryProof);
                        for u in &p.update_proofs {
                            roundtrip!(self.rep, TC::NAME, "UpdateProof", u, pb::UpdateProof, akd::UpdateProof);
                        }
                        for m in &p.existence_of_past_marker_proofs {
                            roundtrip_membership::<TC>(self.rep, m);
                        }
                        for m in &p.non_existence_of_future_marker_proofs {
                            roundtrip_nonmembership::<TC>(self.rep, m);
                        }
                        let bytes = pb::HistoryProof::from(&p).write_to_bytes().unwrap();
                        let vp = HistoryVerificationParams::Default { history_params: hp };
                        let orig = verify_history::<TC>(label, p.clone(), &eh, vp);
                        let via = match dec_history(&bytes) {
                            Dec::Ok(p2) => verify_history::<TC>(label, p2, &eh, vp),
                            other => Err(format!("{other:?}").chars().take(100).collect()),
                        };
                        self.rep.eval(1);
                        if orig != via || orig.is_err() {
                            self.rep.violation(format!("{}/decoded_history_verifies_differently", TC::NAME), json!({"history": show_history(&ctx.history), "label": show_bytes(label)}));
                        }
                        if matches!(hp, HistoryParams::Complete) {
                            let mut c = self.col.lock().unwrap();
                            if c.histories.len() < 400 {
                                c.histories.push((TC::NAME.into(), label.clone(), bytes, eh.clone(), versions.len()));
                            }
                        }
                    }
                }
            }
            if cur >= 1 {
                for s in 0..cur {
                    if let Ok(p) = dir.audit(s, cur).await {
                        roundtrip!(self.rep, TC::NAME, "AppendOnlyProof", &p, pb::AppendOnlyProof, AppendOnlyProof);
                        let hashes: Vec<D32> = ctx.published[s as usize..=cur as usize].to_vec();
                        for (i, sp) in p.proofs.iter().enumerate() {
                            roundtrip!(self.rep, TC::NAME, "SingleAppendOnlyProof", sp, pb::SingleAppendOnlyProof, SingleAppendOnlyProof);
                            // audit blob and its name
                            self.rep.eval(1);
                            let ep = p.epochs[i];
                            match AuditBlob::new(hashes[i], hashes[i + 1], ep, sp) {
                                Ok(blob) => {
                                    let name = blob.name.to_string();
                                    let back = AuditBlobName::try_from(name.as_str());
                                    let dec = blob.decode();
                                    let ok = matches!(&back, Ok(n) if *n == blob.name) && matches!(&dec, Ok((e, ph, ch, sp2)) if *e == ep && *ph == hashes[i] && *ch == hashes[i + 1] && sp2 == sp);
                                    if !ok {
                                        self.rep.violation(format!("{}/audit_blob_roundtrip", TC::NAME), json!({"history": show_history(&ctx.history), "epoch": ep, "name": name}));
                                    }
                                }
                                Err(e) => self.rep.violation(format!("{}/audit_blob_new_failed", TC::NAME), json!({"error": format!("{e:?}")})),
                            }
                        }
                        let bytes = pb::AppendOnlyProof::from(&p).write_to_bytes().unwrap();
                        let via = match dec_audit(&bytes) {
                            Dec::Ok(p2) => akd::auditor::audit_verify::<TC>(hashes.clone(), p2).await.is_ok(),
                            _ => false,
                        };
                        self.rep.eval(1);
                        if !via {
                            self.rep.violation(format!("{}/decoded_audit_does_not_verify", TC::NAME), json!({"history": show_history(&ctx.history), "range": [s, cur]}));
                        }
                        let mut c = self.col.lock().unwrap();
                        if c.audits.len() < 400 {
                            c.audits.push((TC::NAME.into(), bytes, hashes));
                        }
                    }
                }
            }
            self.rep.distinct(format!("{}:{}", TC::NAME, show_history(&ctx.history)));
        })
    }
}

// ------------------------------------------------------------------------------------------
// malformed input

fn verify_any_lookup(cfg: &str, label: &[u8], p: LookupProof, eh: &EpochHash) -> Result<VR, String> {
    if cfg == "whatsapp_v1" {
        verify_lookup::<W>(label, p, eh)
    } else {
        verify_lookup::<E>(label, p, eh)
    }
}
fn verify_any_history(cfg: &str, label: &[u8], p: HistoryProof, eh: &EpochHash, allow_missing: bool) -> Result<Vec<VR>, String> {
    let vp = if allow_missing {
        HistoryVerificationParams::AllowMissingValues { history_params: HistoryParams::Complete }
    } else {
        HistoryVerificationParams::Default { history_params: HistoryParams::Complete }
    };
    if cfg == "whatsapp_v1" {
        verify_history::<W>(label, p, eh, vp)
    } else {
        verify_history::<E>(label, p, eh, vp)
    }
}

fn mutations(bytes: &[u8], ty: &'static str, bitflips: bool) -> Vec<(String, Vec<u8>)> {
    let mut out = vec![];
    for k in 0..bytes.len() {
        out.push((format!("truncate to {k} bytes"), bytes[..k].to_vec()));
    }
    if bitflips {
        for i in 0..bytes.len() {
            for bit in 0..8 {
                let mut b = bytes.to_vec();
                b[i] ^= 1 << bit;
                out.push((format!("flip bit {bit} of byte {i}"), b));
            }
        }
    }
    if let Some(tree) = wparse(bytes, ty) {
        let mut s = vec![];
        surgeries(&tree, ty, "", &mut s);
        for (d, t) in s {
            out.push((d, wencode(&t)));
        }
    } else {
        out.push(("MACHINERY: harness wire parser cannot parse an honest encoding".into(), vec![]));
    }
    out
}

fn malformed(args: &Args, rep: &Report, col: &Collected) {
    let quick = args.quick();
    let pick = |n: usize, want: usize| -> Vec<usize> {
        if n == 0 {
            return vec![];
        }
        let step = (n / want.max(1)).max(1);
        (0..n).step_by(step).take(want).collect()
    };
    // representative proofs: the largest ones first (most structure), spread over both configurations
    let mut lk: Vec<usize> = (0..col.lookups.len()).collect();
    lk.sort_by_key(|&i| std::cmp::Reverse(col.lookups[i].2.len()));
    let mut hs: Vec<usize> = (0..col.histories.len()).collect();
    hs.sort_by_key(|&i| std::cmp::Reverse((col.histories[i].4, col.histories[i].2.len())));
    let mut au: Vec<usize> = (0..col.audits.len()).collect();
    au.sort_by_key(|&i| std::cmp::Reverse(col.audits[i].1.len()));
    let nl = if quick { 2 } else { 8 };
    let mut work: Vec<(u8, usize)> = vec![];
    for &i in lk.iter().take(nl / 2).chain(pick(lk.len(), nl / 2).iter()) {
        work.push((0, i));
    }
    for &i in hs.iter().take(nl / 2).chain(pick(hs.len(), nl / 2).iter()) {
        work.push((1, i));
    }
    for &i in au.iter().take(nl / 2).chain(pick(au.len(), nl / 2).iter()) {
        work.push((2, i));
    }
    work.sort();
    work.dedup();
    rep.count("representative_encoded_proofs", work.len() as u64);
    // expand into (proof, mutation) items so that all cores share the work
    let mut items: Vec<(u8, usize, String, Vec<u8>)> = vec![];
    for (kind, i) in &work {
        let (bytes, ty): (&Vec<u8>, &'static str) = match kind {
            0 => (&col.lookups[*i].2, "LookupProof"),
            1 => (&col.histories[*i].2, "HistoryProof"),
            _ => (&col.audits[*i].1, "AppendOnlyProof"),
        };
        for (d, m) in mutations(bytes, ty, true) {
            items.push((*kind, *i, d, m));
        }
    }
    rep.count("malformed_encodings_tried", items.len() as u64);
    crate::explore::par_for(args.threads, &items, |_, (kind, i, desc, bytes)| {
        rep.eval(1);
        if desc.starts_with("MACHINERY") {
            rep.violation("machinery/wire_parser".into(), json!({"kind": kind}));
            return;
        }
        let class: String = desc.split(' ').next().unwrap_or("").to_string();
        match kind {
            0 => {
                let (cfg, label, orig_bytes, eh) = &col.lookups[*i];
                match dec_lookup(bytes) {
                    Dec::Panic(msg) => rep.violation(format!("decode_panics/LookupProof/{class}"), json!({"mutation": desc, "panic": msg})),
                    Dec::Err => rep.count("decode_errors", 1),
                    Dec::Ok(p2) => {
                        let orig = match dec_lookup(orig_bytes) {
                            Dec::Ok(p) => verify_any_lookup(cfg, label, p, eh),
                            _ => Err("orig".into()),
                        };
                        match catch_unwind(AssertUnwindSafe(|| verify_any_lookup(cfg, label, p2, eh))) {
                            Err(_) => rep.violation(format!("verify_panics/LookupProof/{class}"), json!({"mutation": desc})),
                            Ok(Ok(vr)) => {
                                if Ok(&vr) != orig.as_ref() {
                                    rep.violation(format!("corrupted_lookup_verifies_differently/{class}"), json!({"mutation": desc, "got": show_vr(&vr)}));
                                } else {
                                    rep.count("decoded_and_verified_to_same_result", 1);
                                }
                            }
                            Ok(Err(_)) => rep.count("decoded_but_rejected", 1),
                        }
                    }
                }
            }
            1 => {
                let (cfg, label, orig_bytes, eh, _) = &col.histories[*i];
                match dec_history(bytes) {
                    Dec::Panic(msg) => rep.violation(format!("decode_panics/HistoryProof/{class}"), json!({"mutation": desc, "panic": msg})),
                    Dec::Err => rep.count("decode_errors", 1),
                    Dec::Ok(p2) => {
                        // both verification modes: a field lost in transit (e.g. an update proof's value) must not turn
                        // into the distinguished empty value that the lenient mode accepts
                        for allow_missing in [false, true] {
                            let orig = match dec_history(orig_bytes) {
                                Dec::Ok(p) => verify_any_history(cfg, label, p, eh, allow_missing),
                                _ => Err("orig".into()),
                            };
                            let mode = if allow_missing { "allow_missing" } else { "default" };
                            match catch_unwind(AssertUnwindSafe(|| verify_any_history(cfg, label, p2.clone(), eh, allow_missing))) {
                                Err(_) => rep.violation(format!("verify_panics/HistoryProof/{class}"), json!({"mutation": desc})),
                                Ok(Ok(list)) => {
                                    if Ok(&list) != orig.as_ref() {
                                        rep.violation(format!("corrupted_history_verifies_differently/{class}/{mode}"), json!({"mutation": desc, "got": list.iter().map(show_vr).collect::<Vec<_>>()}));
                                    } else {
                                        rep.count("decoded_and_verified_to_same_result", 1);
                                    }
                                }
                                Ok(Err(_)) => rep.count("decoded_but_rejected", 1),
                            }
                        }
                    }
                }
            }
            _ => {
                let (cfg, _orig, hashes) = &col.audits[*i];
                match dec_audit(bytes) {
                    Dec::Panic(msg) => rep.violation(format!("decode_panics/AppendOnlyProof/{class}"), json!({"mutation": desc, "panic": msg})),
                    Dec::Err => rep.count("decode_errors", 1),
                    Dec::Ok(p2) => {
                        let rt = crate::gate::plain_runtime();
                        let hashes = hashes.clone();
                        let cfg = cfg.clone();
                        let r = catch_unwind(AssertUnwindSafe(|| {
                            rt.block_on(async {
                                if cfg == "whatsapp_v1" {
                                    akd::auditor::audit_verify::<W>(hashes, p2).await.is_ok()
                                } else {
                                    akd::auditor::audit_verify::<E>(hashes, p2).await.is_ok()
                                }
                            })
                        }));
                        match r {
                            Err(_) => rep.violation(format!("verify_panics/AppendOnlyProof/{class}"), json!({"mutation": desc})),
                            Ok(true) => rep.count("decoded_and_verified_to_same_result", 1),
                            Ok(false) => rep.count("decoded_but_rejected", 1),
                        }
                        // the blob path decodes each single proof
                        let _ = dec_single(bytes);
                    }
                }
            }
        }
    });
    // all short byte strings into every top-level decoder
    let maxlen = if quick { 2 } else { 3 };
    let firsts: Vec<u32> = (0..256).collect();
    crate::explore::par_for(args.threads, &firsts, |_, &b0| {
        let mut bufs: Vec<Vec<u8>> = vec![vec![b0 as u8]];
        if b0 == 0 {
            bufs.push(vec![]);
        }
        for b1 in 0..256u32 {
            bufs.push(vec![b0 as u8, b1 as u8]);
            if maxlen >= 3 {
                for b2 in 0..256u32 {
                    bufs.push(vec![b0 as u8, b1 as u8, b2 as u8]);
                }
            }
        }
        for b in bufs {
            rep.eval(1);
            let results = [
                matches!(dec_lookup(&b), Dec::Panic(_)),
                matches!(dec_history(&b), Dec::Panic(_)),
                matches!(dec_audit(&b), Dec::Panic(_)),
                matches!(dec_single(&b), Dec::Panic(_)),
                matches!(guarded(|| pb::MembershipProof::parse_from_bytes(&b).ok().and_then(|m| MembershipProof::try_from(&m).ok())), Dec::Panic(_)),
                matches!(guarded(|| pb::NonMembershipProof::parse_from_bytes(&b).ok().and_then(|m| NonMembershipProof::try_from(&m).ok())), Dec::Panic(_)),
                matches!(guarded(|| pb::UpdateProof::parse_from_bytes(&b).ok().and_then(|m| akd::UpdateProof::try_from(&m).ok())), Dec::Panic(_)),
                matches!(guarded(|| pb::NodeLabel::parse_from_bytes(&b).ok().and_then(|m| akd::NodeLabel::try_from(&m).ok())), Dec::Panic(_)),
                matches!(guarded(|| pb::AzksElement::parse_from_bytes(&b).ok().and_then(|m| akd::AzksElement::try_from(&m).ok())), Dec::Panic(_)),
                matches!(guarded(|| pb::SiblingProof::parse_from_bytes(&b).ok().and_then(|m| akd::SiblingProof::try_from(&m).ok())), Dec::Panic(_)),
            ];
            if results.iter().any(|p| *p) {
                rep.violation("decode_panics/short_byte_string".into(), json!({"bytes": hex::encode(&b), "decoders_panicking": results}));
            }
        }
    });
    // blob names: malformed names never panic
    for name in ["", "/", "//", "1/zz/zz", "1/00/00", "x/00/00", "18446744073709551616/00/00", "1/0/0/0", "-1/ab/cd"] {
        rep.eval(1);
        if catch_unwind(|| AuditBlobName::try_from(name).is_ok()).is_err() {
            rep.violation("decode_panics/audit_blob_name".into(), json!({"name": name}));
        }
    }
}

/// direct round trips over a boundary family of node labels (trailing zero bytes, all lengths around
/// byte boundaries, the configurations' empty-label sentinels) and elements / sibling proofs built from them
fn boundary_roundtrips<TC: ModelCfg>(rep: &Report) {
    let mut labels: Vec<akd::NodeLabel> = vec![TC::empty_label(), akd::NodeLabel::root()];
    for len in [0u32, 1, 7, 8, 9, 248, 249, 255, 256] {
        for zeros in 0..=32usize {
            // a value whose last `zeros` bytes are zero (canonical for its length where possible)
            let mut v = [0xa5u8; 32];
            for b in v.iter_mut().skip(32 - zeros) {
                *b = 0;
            }
            let nl = akd::NodeLabel::new(v, len);
            labels.push(nl.get_prefix(len));
            if len == 256 {
                labels.push(nl);
            }
        }
    }
    labels.sort();
    labels.dedup();
    for l in &labels {
        roundtrip!(rep, TC::NAME, "NodeLabel(boundary family)", l, pb::NodeLabel, akd::NodeLabel);
        let e = akd::AzksElement { label: *l, value: akd::AzksValue([0u8; 32]) };
        roundtrip!(rep, TC::NAME, "AzksElement(boundary family)", &e, pb::AzksElement, akd::AzksElement);
        let e2 = akd::AzksElement { label: *l, value: akd::AzksValue([0xffu8; 32]) };
        let sp = akd::SiblingProof { label: *l, siblings: [e2], direction: akd::Direction::Right };
        roundtrip!(rep, TC::NAME, "SiblingProof(boundary family)", &sp, pb::SiblingProof, akd::SiblingProof);
        let mp = MembershipProof { label: *l, hash_val: akd::AzksValue([0u8; 32]), sibling_proofs: vec![sp.clone(), sp] };
        roundtrip!(rep, TC::NAME, "MembershipProof(boundary family)", &mp, pb::MembershipProof, MembershipProof);
        let single = SingleAppendOnlyProof { inserted: vec![e], unchanged_nodes: vec![e2] };
        roundtrip!(rep, TC::NAME, "SingleAppendOnlyProof(boundary family)", &single, pb::SingleAppendOnlyProof, SingleAppendOnlyProof);
    }
    rep.count(&format!("{}:boundary_labels_roundtripped", TC::NAME), labels.len() as u64);
}

/// user labels whose version-1 fresh / stale node labels END in a zero byte (their minimal protobuf
/// encoding is shorter than 32 bytes), used as extra histories
fn zero_tail_histories<TC: ModelCfg>() -> Vec<Vec<Batch>> {
    let mut fresh_zero = None;
    let mut stale_zero = None;
    for i in 0..20_000 {
        let l = format!("z{i}").into_bytes();
        if fresh_zero.is_none() && node_label::<TC>(&l, true, 1).label_val[31] == 0 {
            fresh_zero = Some(l.clone());
        }
        if stale_zero.is_none() && node_label::<TC>(&l, false, 1).label_val[31] == 0 {
            stale_zero = Some(l.clone());
        }
        if fresh_zero.is_some() && stale_zero.is_some() {
            break;
        }
    }
    let mut out = vec![];
    let al = alphabet::<TC>();
    if let (Some(f), Some(s)) = (fresh_zero, stale_zero) {
        out.push(vec![vec![(f.clone(), b"x".to_vec()), (al.labels[0].clone(), b"x".to_vec())], vec![(f.clone(), b"y".to_vec()), (s.clone(), b"x".to_vec())], vec![(s.clone(), b"y".to_vec())]]);
    }
    out
}

fn run_inner(args: &Args) -> i32 {
    let rep = Report::new("C19", &args.tier, "exploration");
    let col = std::sync::Mutex::new(Collected { lookups: vec![], histories: vec![], audits: vec![] });
    let plan = if args.quick() {
        Plan { base_depth: 2, ext_depth: 2, chains: vec![(9, 0)], shape_depth: 2, cache: CacheCfg::None, par: AzksParallelismConfig::disabled() }
    } else {
        Plan { base_depth: 3, ext_depth: 2, chains: vec![(17, 0), (9, 1)], shape_depth: 2, cache: CacheCfg::None, par: AzksParallelismConfig::disabled() }
    };
    let v = V19 { rep: &rep, col: &col };
    run_plan(args.threads, &plan, &v);
    {
        let cfg = WalkCfg { alphabet: vec![], depth: 0, cache: plan.cache, par: plan.par, threads: args.threads };
        walk_histories::<W, _>(&cfg, &zero_tail_histories::<W>(), &v);
        walk_histories::<E, _>(&cfg, &zero_tail_histories::<E>(), &v);
    }
    boundary_roundtrips::<W>(&rep);
    boundary_roundtrips::<E>(&rep);
    let col = col.into_inner().unwrap();
    rep.count("lookup_proofs_collected", col.lookups.len() as u64);
    rep.count("history_proofs_collected", col.histories.len() as u64);
    rep.count("audit_proofs_collected", col.audits.len() as u64);
    malformed(args, &rep, &col);
    rep.sample(json!({"roundtrip": "every lookup / history / append-only proof and every component along the plan's histories", "malformed": "every truncation, every single-bit flip, every single-field deletion/duplication at every nesting level, oversize label length / label value / digests / vrf proofs, of representative encodings; every byte string of length <= 2 (thorough 3) into 10 decoders"}));
    rep.extra("plan", json!(plan_note(&plan)));
    rep.finish(
        "round trip: every lookup, history and append-only proof (and each component: membership, non-membership, sibling, update proofs, elements, labels) produced after every epoch of every history is converted value -> message -> bytes -> message -> value and must be identical; the decoded proof must verify to the same result (incl. the wasm client's bytes -> LookupProof -> lookup_verify path and AuditBlob::new/decode + blob names). Malformed, exhaustive at deviation 1 on representative encodings: every truncation length, every single-bit flip, every deletion or duplication of one field occurrence at every nesting level, label length 257 / 2^32-1 / 2^32, label value of 33/64 bytes, digests of 0/31/33 bytes, vrf proofs of 0/79/81 bytes, directions 2/3/255; plus every byte string of length <= 2 (thorough 3) into every top-level decoder. Oracle: no panic; decode returns Err, or a proof that fails verification or verifies to the original result. One evaluation = one round trip or one malformed input",
        &["the sweep runs in a child process: an abort (e.g. allocation failure) is reported as a violation by the parent", "decoding under catch_unwind"],
    )
}

pub fn run(args: &Args) -> i32 {
    if std::env::var("AKDMC_C19_CHILD").is_ok() {
        return run_inner(args);
    }
    // parent: run the sweep in a child process so that an abort is a reported failure, not a lost run
    let exe = std::env::current_exe().expect("current_exe");
    let status = std::process::Command::new(exe).arg("C19").arg("--tier").arg(&args.tier).env("AKDMC_C19_CHILD", "1").status();
    match status {
        Ok(s) => match s.code() {
            Some(c) => c,
            None => {
                let rep = Report::new("C19", &args.tier, "exploration");
                rep.eval(1);
                rep.distinct("child-aborted".into());
                rep.distinct("child-aborted-2".into());
                rep.sample(json!({"child": "terminated by a signal"}));
                rep.violation("decoder_aborted_the_process".into(), json!({"status": format!("{s:?}"), "note": "the decoding sweep terminated abnormally (abort / allocation failure / stack overflow)"}));
                rep.finish("child process crashed during the decoding sweep", &[])
            }
        },
        Err(e) => {
            eprintln!("MACHINERY ERROR: cannot spawn child: {e}");
            2
        }
    }
}
