//! C03 — key history returns a verifying, complete account of a label's versions.

use super::hist::*;
use crate::common::*;
use crate::model::*;
use crate::oracles::*;
use crate::report::Report;
use crate::Args;
use akd::append_only_zks::AzksParallelismConfig;
use akd::{AkdLabel, HistoryParams};
use serde_json::json;
use std::future::Future;
use std::pin::Pin;

struct V3<'r> {
    rep: &'r Report,
}

pub fn param_menu(total: usize) -> Vec<HistoryParams> {
    let mut ns: Vec<usize> = vec![1, 2, 3, total.saturating_sub(1), total, total + 1, 2 * total];
    ns.retain(|n| *n >= 1);
    ns.sort();
    ns.dedup();
    let mut out = vec![HistoryParams::Complete];
    out.extend(ns.into_iter().map(HistoryParams::MostRecent));
    out
}

impl<'r, TC: ModelCfg> HistVisitor<TC> for V3<'r> {
    fn visit<'a>(&'a self, ctx: &'a HistCtx<TC>) -> Pin<Box<dyn Future<Output = ()> + 'a>> {
        Box::pin(async move {
            let dir = new_dir::<TC>(&ctx.db, &ctx.vrf, CacheCfg::None, AzksParallelismConfig::disabled()).await;
            let hist = || show_history(&ctx.history);
            for (l, vs) in ctx.model.users.iter() {
                for p in param_menu(vs.len()) {
                    self.rep.eval(1);
                    match check_history::<TC, _>(&dir, l, p, &ctx.model, &ctx.published, Some(ctx.model.epoch)).await {
                        Err(b) => self.rep.violation(
                            format!("{}/{}/{}", TC::NAME, b.kind, if matches!(p, HistoryParams::Complete) { "Complete" } else { "MostRecent" }),
                            json!({"history": hist(), "detail": b.detail}),
                        ),
                        Ok(Some((_, list))) => {
                            self.rep.distinct(format!("{}:{}:{}:{}@{}", TC::NAME, show_bytes(l), hp_name(&p), list.len(), ctx.model.epoch));
                            self.rep.sample(json!({"cfg": TC::NAME, "history": hist(), "label": show_bytes(l), "params": hp_name(&p),
                                                   "verified": list.iter().map(show_vr).collect::<Vec<_>>()}));
                        }
                        Ok(None) => {}
                    }
                }
            }
            for l in super::c02::never_labels() {
                for p in [HistoryParams::Complete, HistoryParams::MostRecent(1)] {
                    self.rep.eval(1);
                    if dir.key_history(&AkdLabel(l.clone()), p).await.is_ok() {
                        self.rep.violation(format!("{}/history_for_unpublished_label", TC::NAME), json!({"history": hist(), "label": show_bytes(&l)}));
                    }
                }
            }
        })
    }
}

pub fn run(args: &Args) -> i32 {
    let rep = Report::new("C03", &args.tier, "exploration");
    let plan = if args.quick() {
        Plan { base_depth: 2, ext_depth: 2, chains: vec![(17, 1)], shape_depth: 2, cache: CacheCfg::None, par: AzksParallelismConfig::disabled() }
    } else {
        Plan { base_depth: 3, ext_depth: 3, chains: vec![(33, 1), (17, 2)], shape_depth: 2, cache: CacheCfg::None, par: AzksParallelismConfig::disabled() }
    };
    let v = V3 { rep: &rep };
    run_plan(args.threads, &plan, &v);
    rep.extra("plan", json!(plan_note(&plan)));
    rep.finish(
        "after every epoch of every history: key_history of every published label for Complete and MostRecent(N), N in {1,2,3,total-1,total,total+1,2*total}, verified with the real key_history_verify (same parameter) and compared with DirModel's newest-first list; never-published labels must error. distinct = distinct (configuration, label, parameter, result length, epoch)",
        &["blake3 collision resistance", "hard-coded test VRF key", "C01 establishes that published hashes are the canonical ones"],
    )
}
