//! C04 — every epoch range can be audited against the published root hashes.

use super::hist::*;
use crate::common::*;
use crate::model::*;
use crate::oracles::*;
use crate::report::Report;
use crate::Args;
use akd::append_only_zks::AzksParallelismConfig;
use serde_json::json;
use std::future::Future;
use std::pin::Pin;

struct V4<'r> {
    rep: &'r Report,
}

impl<'r, TC: ModelCfg> HistVisitor<TC> for V4<'r> {
    fn visit<'a>(&'a self, ctx: &'a HistCtx<TC>) -> Pin<Box<dyn Future<Output = ()> + 'a>> {
        Box::pin(async move {
            // only at nodes where the last publish created an epoch (others were visited already)
            if !matches!(ctx.last, Some(MPublish::NewEpoch(_))) && !ctx.history.is_empty() {
                return;
            }
            let dir = new_dir::<TC>(&ctx.db, &ctx.vrf, CacheCfg::None, AzksParallelismConfig::disabled()).await;
            let hist = || show_history(&ctx.history);
            let cur = ctx.model.epoch;
            // published hashes cross-checked against the model trie as of each epoch
            for e in 0..=cur {
                let (mroot, _) = model_root::<TC>(&ctx.model.as_of(e));
                if mroot != ctx.published[e as usize] {
                    self.rep.violation(format!("{}/published_hash_not_canonical", TC::NAME), json!({"history": hist(), "epoch": e}));
                }
            }
            for s in 0..cur {
                for e in s + 1..=cur {
                    self.rep.eval(1);
                    match check_audit::<TC, _>(&dir, s, e, &ctx.published).await {
                        Ok(size) => {
                            self.rep.distinct(format!("{}:{}..{}@{}:{}", TC::NAME, s, e, cur, size));
                            if e < cur && s > 0 {
                                self.rep.sample(json!({"cfg": TC::NAME, "history": hist(), "range": [s, e], "latest": cur, "proof_elements": size}));
                            }
                        }
                        Err(b) => self.rep.violation(
                            format!("{}/{}/{}", TC::NAME, b.kind, if e == cur { "ends_at_latest" } else { "ends_before_latest" }),
                            json!({"history": hist(), "detail": b.detail}),
                        ),
                    }
                }
            }
            // refused shapes
            for (s, e) in [(0u64, 0u64), (cur, cur), (cur + 1, cur), (1, 0), (0, cur + 1), (cur, cur + 1), (cur + 1, cur + 2)] {
                self.rep.eval(1);
                if dir.audit(s, e).await.is_ok() {
                    self.rep.violation(format!("{}/invalid_range_not_refused", TC::NAME), json!({"history": hist(), "range": [s, e], "latest": cur}));
                }
            }
        })
    }
}

pub fn run(args: &Args) -> i32 {
    let rep = Report::new("C04", &args.tier, "exploration");
    let plan = if args.quick() {
        Plan { base_depth: 2, ext_depth: 2, chains: vec![(17, 1)], shape_depth: 2, cache: CacheCfg::None, par: AzksParallelismConfig::disabled() }
    } else {
        Plan { base_depth: 3, ext_depth: 3, chains: vec![(33, 1), (17, 2)], shape_depth: 2, cache: CacheCfg::None, par: AzksParallelismConfig::disabled() }
    };
    let v = V4 { rep: &rep };
    run_plan(args.threads, &plan, &v);
    rep.extra("plan", json!(plan_note(&plan)));
    rep.finish(
        "after every epoch E of every history: audit(s,e) for every 0 <= s < e <= E verified with the real audit_verify against the published hashes (themselves compared with the model trie as of each epoch), plus refused shapes (s = e, s > e, e > E). distinct = distinct (configuration, range, latest epoch, proof size)",
        &["blake3 collision resistance", "hard-coded test VRF key"],
    )
}
