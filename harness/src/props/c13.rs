//! C13 — every answer names a published epoch hash and verifies against it, or errors.
//!
//! (a) interleavings (E2): one writer (1–2 publishes, optionally with a failing commit) and 1–2
//!     reader tasks on the writer's instance, a clone, or a ReadOnlyDirectory with its own manager,
//!     cached and uncached, optionally with the change poller; all schedules up to a preemption bound.
//! (b) lag matrix: a reader instance whose cache was warmed, then fell 0..3 epochs behind storage,
//!     then answers each operation, with and without poller ticks in between.

use super::hist::*;
use crate::common::*;
use crate::conc::*;
use crate::explore::{explore, Chooser};
use crate::gate::OpDesc;
use crate::model::*;
use crate::oracles::*;
use crate::report::Report;
use crate::Args;
use akd::append_only_zks::AzksParallelismConfig;
use akd::HistoryParams;
use serde_json::json;

fn no_fault(_: &OpDesc) -> bool {
    false
}
fn commit_fault(d: &OpDesc) -> bool {
    d.is_commit
}

struct Case {
    name: String,
    sc: Scenario,
    bound: u32,
}

fn base_sc() -> Scenario {
    Scenario {
        initial: vec![],
        actors: vec![],
        writer_cache: CacheCfg::None,
        reader_cache: CacheCfg::None,
        par: AzksParallelismConfig::disabled(),
        reader_warmup: vec![],
        lag_publishes: vec![],
        poller: false,
        gate_vrf: false,
        post_gates: false,
        faults: 0,
        faultable: no_fault,
        cold_writer_cache: false,
    }
}

fn reader_ops<TC: ModelCfg>(end_epoch: u64) -> Vec<(String, Op)> {
    let al = alphabet::<TC>();
    let (a, b) = (al.labels[0].clone(), al.labels[1].clone());
    vec![
        ("lookup_a".into(), Op::Lookup(a.clone())),
        ("lookup_b".into(), Op::Lookup(b.clone())),
        ("batch_lookup_ab".into(), Op::BatchLookup(vec![a.clone(), b.clone()])),
        ("history_a_complete".into(), Op::History(a.clone(), HistoryParams::Complete)),
        ("history_a_recent1".into(), Op::History(a.clone(), HistoryParams::MostRecent(1))),
        ("audit".into(), Op::Audit(0, end_epoch)),
        ("audit_next".into(), Op::Audit(end_epoch, end_epoch + 1)),
        ("epoch_hash".into(), Op::EpochHash),
    ]
}

fn cases<TC: ModelCfg>(quick: bool) -> Vec<Case> {
    let al = alphabet::<TC>();
    let (a, b, c) = (al.labels[0].clone(), al.labels[1].clone(), al.labels[2].clone());
    let x = b"x".to_vec();
    let initial: Vec<Batch> = vec![vec![(a.clone(), x.clone()), (b.clone(), x.clone())]];
    let w1: Batch = vec![(a.clone(), b"y".to_vec())];
    let w2: Batch = vec![(a.clone(), b"z".to_vec()), (c.clone(), x.clone())];
    let mut out = vec![];
    // ---- (a) interleavings
    for (wname, wops) in [("1publish", vec![Op::Publish(w1.clone())]), ("2publishes", vec![Op::Publish(w1.clone()), Op::Publish(w2.clone())])] {
        for (iname, inst, wcache, rcache) in [
            ("clone_nocache", Inst::WriterClone, CacheCfg::None, CacheCfg::None),
            ("clone_cache", Inst::WriterClone, CacheCfg::Default, CacheCfg::None),
            ("readonly_nocache", Inst::ReadOnly, CacheCfg::None, CacheCfg::None),
            ("readonly_cache", Inst::ReadOnly, CacheCfg::None, CacheCfg::Default),
        ] {
            for (rname, rop) in reader_ops::<TC>(1) {
                if quick && wname == "2publishes" && !matches!(rname.as_str(), "lookup_a" | "history_a_complete" | "epoch_hash" | "audit") {
                    continue;
                }
                let mut sc = base_sc();
                sc.initial = initial.clone();
                sc.writer_cache = wcache;
                sc.reader_cache = rcache;
                if inst == Inst::ReadOnly && rcache != CacheCfg::None {
                    sc.reader_warmup = vec![Op::EpochHash];
                }
                sc.actors = vec![
                    Actor { name: "W".into(), inst: Inst::Writer, ops: wops.clone() },
                    Actor { name: "R".into(), inst, ops: vec![rop.clone()] },
                ];
                out.push(Case { name: format!("interleave/{wname}/{iname}/{rname}"), sc, bound: if quick { 2 } else { 3 } });
            }
        }
    }
    // tree-shape scenario: the publish decompresses the edge above the interior node over {p,q} AND inserts below
    // it, while a reader walks through that node (both orientations)
    for orient in 0..2usize {
        let sa = shape_alphabet::<TC>(orient);
        let (p, q, r, s_) = (sa.labels[0].clone(), sa.labels[1].clone(), sa.labels[2].clone(), sa.labels[3].clone());
        let init: Vec<Batch> = vec![vec![(p.clone(), x.clone()), (q.clone(), x.clone())]];
        let wb: Batch = vec![(r.clone(), x.clone()), (s_.clone(), x.clone())];
        for (iname, inst, wcache, rcache) in [
            ("clone_nocache", Inst::WriterClone, CacheCfg::None, CacheCfg::None),
            ("readonly_nocache", Inst::ReadOnly, CacheCfg::None, CacheCfg::None),
            ("readonly_cache", Inst::ReadOnly, CacheCfg::None, CacheCfg::Default),
        ] {
            let rops: Vec<(&str, Op)> = vec![
                ("lookup_p", Op::Lookup(p.clone())),
                ("lookup_q", Op::Lookup(q.clone())),
                ("history_p", Op::History(p.clone(), HistoryParams::Complete)),
                ("batch_lookup_pq", Op::BatchLookup(vec![p.clone(), q.clone()])),
                ("audit", Op::Audit(0, 1)),
            ];
            for (rname, rop) in rops {
                if quick && (orient == 1 || !matches!(rname, "lookup_p" | "history_p")) {
                    continue;
                }
                let mut sc = base_sc();
                sc.initial = init.clone();
                sc.writer_cache = wcache;
                sc.reader_cache = rcache;
                if inst == Inst::ReadOnly && rcache != CacheCfg::None {
                    sc.reader_warmup = vec![Op::EpochHash];
                }
                sc.actors = vec![
                    Actor { name: "W".into(), inst: Inst::Writer, ops: vec![Op::Publish(wb.clone())] },
                    Actor { name: "R".into(), inst, ops: vec![rop.clone()] },
                ];
                out.push(Case { name: format!("interleave_shape{orient}/{iname}/{rname}"), sc, bound: if quick { 2 } else { 3 } });
            }
        }
    }
    // the same with the delivery of database responses as separate scheduling points (read-miss cache
    // fills racing the commit's write-through), on the cached instances
    for (iname, inst, wcache, rcache) in [("clone_cache", Inst::WriterClone, CacheCfg::Default, CacheCfg::None), ("readonly_cache", Inst::ReadOnly, CacheCfg::None, CacheCfg::Default)] {
        for (rname, rop) in reader_ops::<TC>(1) {
            if quick && !matches!(rname.as_str(), "lookup_a" | "history_a_complete") {
                continue;
            }
            let mut sc = base_sc();
            sc.initial = initial.clone();
            sc.writer_cache = wcache;
            sc.reader_cache = rcache;
            sc.post_gates = true;
            sc.actors = vec![
                Actor { name: "W".into(), inst: Inst::Writer, ops: vec![Op::Publish(w1.clone())] },
                Actor { name: "R".into(), inst, ops: vec![rop.clone(), rop.clone()] },
            ];
            out.push(Case { name: format!("response_gates/{iname}/{rname}"), sc, bound: 2 });
        }
    }
    // writer whose commit fails, reader on the same (cached) manager and on a cached read-only instance
    for (iname, inst, wcache, rcache) in [("clone_cache", Inst::WriterClone, CacheCfg::Default, CacheCfg::None), ("readonly_cache", Inst::ReadOnly, CacheCfg::None, CacheCfg::Default)] {
        for (rname, rop) in reader_ops::<TC>(1) {
            let mut sc = base_sc();
            sc.initial = initial.clone();
            sc.writer_cache = wcache;
            sc.reader_cache = rcache;
            sc.faults = 1;
            sc.faultable = commit_fault;
            sc.actors = vec![
                Actor { name: "W".into(), inst: Inst::Writer, ops: vec![Op::Publish(w1.clone()), Op::Publish(w2.clone())] },
                Actor { name: "R".into(), inst, ops: vec![rop.clone(), rop.clone()] },
            ];
            out.push(Case { name: format!("failing_commit/{iname}/{rname}"), sc, bound: 2 });
        }
    }
    // two readers and a writer (thorough)
    if !quick {
        for (iname, inst, wcache, rcache) in [("clone_cache", Inst::WriterClone, CacheCfg::Default, CacheCfg::None), ("readonly_cache", Inst::ReadOnly, CacheCfg::None, CacheCfg::Default)] {
            let ops = reader_ops::<TC>(1);
            for i in 0..ops.len() {
                for j in i..ops.len() {
                    let mut sc = base_sc();
                    sc.initial = initial.clone();
                    sc.writer_cache = wcache;
                    sc.reader_cache = rcache;
                    sc.actors = vec![
                        Actor { name: "W".into(), inst: Inst::Writer, ops: vec![Op::Publish(w1.clone())] },
                        Actor { name: "R1".into(), inst, ops: vec![ops[i].1.clone()] },
                        Actor { name: "R2".into(), inst, ops: vec![ops[j].1.clone()] },
                    ];
                    out.push(Case { name: format!("two_readers/{iname}/{}+{}", ops[i].0, ops[j].0), sc, bound: 2 });
                }
            }
        }
    }
    // ---- poller interleavings: reader instance cached + poller, writer publishes, reader asks
    for (rname, rop) in reader_ops::<TC>(1) {
        if quick && !matches!(rname.as_str(), "lookup_a" | "history_a_complete" | "epoch_hash") {
            continue;
        }
        let mut sc = base_sc();
        sc.initial = initial.clone();
        sc.reader_cache = CacheCfg::Default;
        sc.reader_warmup = vec![Op::EpochHash, Op::Lookup(a.clone())];
        sc.poller = true;
        sc.actors = vec![
            Actor { name: "W".into(), inst: Inst::Writer, ops: vec![Op::Publish(w1.clone())] },
            Actor { name: "R".into(), inst: Inst::ReadOnly, ops: vec![rop.clone(), rop.clone()] },
        ];
        out.push(Case { name: format!("poller/{rname}"), sc, bound: if quick { 2 } else { 3 } });
    }
    // ---- poller + writer + two concurrent requests on the polling instance (one holds the cache lock
    // shared while the poller waits for it exclusively; the other may be lock-free)
    {
        let ops = reader_ops::<TC>(1);
        let pick = |n: &str| ops.iter().find(|(k, _)| k == n).unwrap().1.clone();
        let pairs: Vec<(&str, &str)> = if quick {
            vec![("lookup_a", "epoch_hash"), ("lookup_a", "lookup_b")]
        } else {
            vec![("lookup_a", "epoch_hash"), ("lookup_a", "lookup_b"), ("history_a_complete", "epoch_hash"), ("history_a_complete", "lookup_a"), ("audit", "epoch_hash"), ("batch_lookup_ab", "history_a_recent1")]
        };
        for (r1, r2) in pairs {
            let mut sc = base_sc();
            sc.initial = initial.clone();
            sc.reader_cache = CacheCfg::Default;
            sc.reader_warmup = vec![Op::EpochHash, Op::Lookup(a.clone()), Op::Lookup(b.clone())];
            sc.poller = true;
            sc.actors = vec![
                Actor { name: "W".into(), inst: Inst::Writer, ops: vec![Op::Publish(w1.clone())] },
                Actor { name: "R1".into(), inst: Inst::ReadOnly, ops: vec![pick(r1)] },
                Actor { name: "R2".into(), inst: Inst::ReadOnly, ops: vec![pick(r2), pick(r2)] },
            ];
            out.push(Case { name: format!("poller_two_readers/{r1}+{r2}"), sc, bound: if quick { 2 } else { 3 } });
        }
    }
    // ---- (b) lag matrix
    let warmups: Vec<(&str, Vec<Op>)> = vec![
        ("cold", vec![]),
        ("epoch_hash", vec![Op::EpochHash]),
        ("lookup_a", vec![Op::Lookup(a.clone())]),
        ("lookup_b", vec![Op::Lookup(b.clone())]),
        ("history_a", vec![Op::History(a.clone(), HistoryParams::Complete)]),
    ];
    let touching: Vec<Batch> = vec![vec![(a.clone(), b"y".to_vec())], vec![(a.clone(), b"z".to_vec())], vec![(a.clone(), b"w".to_vec())]];
    let not_touching: Vec<Batch> = vec![vec![(c.clone(), b"x".to_vec())], vec![(c.clone(), b"y".to_vec())], vec![(c.clone(), b"z".to_vec())]];
    for (wn, warm) in &warmups {
        for k in 0..=3usize {
            for (tn, lag) in [("touching", &touching), ("not_touching", &not_touching)] {
                if k == 0 && tn == "not_touching" {
                    continue;
                }
                for poller in [false, true] {
                    if poller && (k == 0 || (quick && k == 3)) {
                        continue;
                    }
                    let mut ops = reader_ops::<TC>(1);
                    if k >= 1 {
                        // ranges ending at the newest epoch in storage, which the lagging reader has not seen
                        ops.push(("audit_to_storage_epoch".into(), Op::Audit(0, 1 + k as u64)));
                        ops.push(("audit_last_step".into(), Op::Audit(k as u64, 1 + k as u64)));
                    }
                    for (rname, rop) in ops {
                        let mut sc = base_sc();
                        sc.initial = initial.clone();
                        sc.reader_cache = CacheCfg::Default;
                        sc.reader_warmup = warm.clone();
                        sc.lag_publishes = lag[..k].to_vec();
                        sc.poller = poller;
                        sc.actors = vec![Actor { name: "R".into(), inst: Inst::ReadOnly, ops: vec![rop.clone()] }];
                        out.push(Case { name: format!("lag/{wn}/{k}_{tn}/{}/{rname}", if poller { "poller" } else { "nopoller" }), sc, bound: if poller { 2 } else { 0 } });
                    }
                }
            }
        }
    }
    out
}

fn judge<TC: ModelCfg>(rep: &Report, case: &Case, out: &RunOut, ch: &Chooser) {
    let sc = &case.sc;
    // identity: scenario family without the concrete reader op ordinal
    let fam: Vec<&str> = case.name.split('/').collect();
    let ident = |kind: &str| format!("{}/{}/{}", TC::NAME, fam.join("/"), kind);
    let detail = |extra: serde_json::Value| {
        json!({"scenario": sc.describe(), "choices": ch.choices(), "deviations": ch.cost(), "schedule": show_steps(out), "observed": extra,
               "choice_points": ch.points.iter().filter(|p| p.picked != 0).map(|p| format!("picked {} (cost {}) among: {}", p.picked, p.costs[p.picked as usize], p.label)).collect::<Vec<_>>()})
    };
    if out.horizon {
        if out.idle_taken > 0 {
            rep.count("executions_discarded_idle_without_pending_timer", 1);
        } else {
            rep.violation(ident("deadlock_or_horizon"), detail(json!({})));
        }
        return;
    }
    // ground truth: initial + lag + the writer's successful publishes, in order
    let mut m = DirModel::default();
    for b in sc.initial.iter() {
        m.publish(b);
    }
    let warm_epoch = m.epoch;
    for b in sc.lag_publishes.iter() {
        m.publish(b);
    }
    for (ai, a) in sc.actors.iter().enumerate() {
        for (oi, op) in a.ops.iter().enumerate() {
            if let (Op::Publish(b), Some((OpResult::Publish(r), _, _))) = (op, out.results[ai].get(oi)) {
                match r {
                    Ok(eh) => {
                        m.publish(b);
                        if eh.0 != m.epoch || eh.1 != model_root::<TC>(&m).0 {
                            rep.violation(ident("writer_publish_returned_wrong_pair"), detail(json!({"returned": format!("{eh:?}")})));
                        }
                    }
                    Err(_) => {}
                }
            }
        }
    }
    let published: Vec<D32> = (0..=m.epoch).map(|e| model_root::<TC>(&m.as_of(e)).0).collect();
    let rt = crate::gate::plain_runtime();
    rt.block_on(async {
        let mut fp = vec![];
        for (ai, a) in sc.actors.iter().enumerate() {
            for (oi, op) in a.ops.iter().enumerate() {
                if matches!(op, Op::Publish(_)) {
                    continue;
                }
                let Some((res, n0, _n1)) = out.results[ai].get(oi) else { continue };
                let min_epoch = if sc.poller && a.inst == Inst::ReadOnly && *n0 > 0 { warm_epoch + *n0 } else { 0 };
                match judge_answer::<TC>(op, res, &m, &published, min_epoch).await {
                    Ok(e) => fp.push(format!("{}:{}", a.name, e.map(|e| e.to_string()).unwrap_or("Err".into()))),
                    Err(b) => {
                        fp.push(format!("{}:BAD", a.name));
                        rep.violation(ident(&b.kind), detail(json!({"actor": a.name, "op": show_op(op), "detail": b.detail, "poll_notifications": out.poll_notifications})));
                    }
                }
            }
        }
        rep.distinct(format!("{}:{}:{}", TC::NAME, case.name, fp.join(",")));
    });
    rep.sample_cap(json!({"cfg": TC::NAME, "scenario": case.name, "deviations": ch.cost(), "schedule_len": out.steps.len()}), 6);
}

fn run_cfg<TC: ModelCfg>(args: &Args, rep: &Report) {
    let quick = args.quick();
    let mut cs = cases::<TC>(quick);
    if let Ok(f) = std::env::var("AKDMC_ONLY") {
        cs.retain(|c| c.name.contains(&f));
        if let Ok(b) = std::env::var("AKDMC_BOUND") {
            for c in cs.iter_mut() {
                c.bound = b.parse().unwrap();
            }
        }
    }
    rep.count(&format!("{}:scenarios", TC::NAME), cs.len() as u64);
    // scenarios are independent: the light ones run in parallel (each explored on one thread), the
    // heavy ones (poller: long executions, many schedules) one after another on all threads
    let one = |case: &Case, threads: usize| {
        let cap = if quick { 20_000 } else { 400_000 };
        let mut c1 = Chooser::default_run();
        let o1 = run_scenario::<TC>(&case.sc, &mut c1);
        let mut c2 = Chooser::default_run();
        let o2 = run_scenario::<TC>(&case.sc, &mut c2);
        if show_steps(&o1) != show_steps(&o2) || c1.choices() != c2.choices() {
            eprintln!("MACHINERY ERROR: scenario {} is not deterministic under the default schedule", case.name);
            std::process::exit(2);
        }
        let stats = explore(threads, case.bound, cap, |ch| {
            let out = run_scenario::<TC>(&case.sc, ch);
            rep.eval(1);
            rep.states(out.steps.len() as u64, out.steps.len() as u64);
            rep.traces(1);
            judge::<TC>(rep, case, &out, ch);
        });
        if stats.capped {
            rep.cap_hit(format!("{} {} execution cap {} hit at bound {}", TC::NAME, case.name, cap, case.bound));
        }
        rep.count(&format!("{}:executions:{}", TC::NAME, case.name.split('/').next().unwrap()), stats.executions);
    };
    let (heavy, light): (Vec<Case>, Vec<Case>) = cs.into_iter().partition(|c| c.sc.poller && c.sc.actors.len() >= 2);
    crate::explore::par_for(args.threads, &light, |_, case| one(case, 1));
    for case in &heavy {
        one(case, args.threads);
    }
}

// ---- (c) one-epoch lag over ALL histories: for every publish edge of the history walk (base alphabet
// and the tree-shape alphabet) a cached read-only instance that saw the directory before the publish
// (its Azks record and whatever the warm-up read are cached) answers every operation after the publish
// was committed underneath it by another instance: reads of records it has not cached resolve against
// the NEW storage while it still believes in the OLD epoch.
struct LagVisitor<'r> {
    rep: &'r Report,
    par: AzksParallelismConfig,
    family: &'static str,
}

impl<'r, TC: ModelCfg> HistVisitor<TC> for LagVisitor<'r> {
    fn visit<'a>(&'a self, _ctx: &'a HistCtx<TC>) -> std::pin::Pin<Box<dyn std::future::Future<Output = ()> + 'a>> {
        Box::pin(async {})
    }
    fn on_publish<'a>(&'a self, ev: &'a PubEvent<'a, TC>) -> std::pin::Pin<Box<dyn std::future::Future<Output = ()> + 'a>> {
        Box::pin(async move {
            let (Ok(eh), MPublish::NewEpoch(_)) = (ev.result, ev.expect) else { return };
            let before = ev.before;
            let mut published = before.published.clone();
            published.push(eh.1);
            let m = ev.model_after;
            let old_labels: Vec<Vec<u8>> = before.model.users.keys().cloned().collect();
            let labels: Vec<Vec<u8>> = m.users.keys().cloned().collect();
            let mut warmups: Vec<(&str, Vec<Op>)> = vec![("epoch_hash", vec![Op::EpochHash])];
            if let Some(l) = old_labels.first() {
                warmups.push(("lookup_first", vec![Op::EpochHash, Op::Lookup(l.clone())]));
            }
            for (wn, warm) in warmups {
                let rdb = before.db.fork().await;
                let reader = RoDir::<TC>::new(manager(&rdb, CacheCfg::Default), before.vrf.clone(), self.par).await.expect("ReadOnlyDirectory::new");
                for op in &warm {
                    let _ = do_op::<TC, _>(&reader, None, op).await;
                }
                let writer = new_dir::<TC>(&rdb, &before.vrf, CacheCfg::None, self.par).await;
                match writer.publish(to_akd_batch(ev.batch)).await {
                    Ok(e2) if e2 == *eh => {}
                    other => {
                        self.rep.violation(
                            format!("{}/{}/republish_differs", TC::NAME, self.family),
                            json!({"history": show_history(&before.history), "batch": show_batch(ev.batch), "first": format!("{eh:?}"), "second": format!("{other:?}")}),
                        );
                        return;
                    }
                }
                let mut ops: Vec<Op> = vec![Op::EpochHash];
                for l in &labels {
                    ops.push(Op::Lookup(l.clone()));
                    ops.push(Op::History(l.clone(), HistoryParams::Complete));
                    ops.push(Op::History(l.clone(), HistoryParams::MostRecent(1)));
                }
                if labels.len() >= 2 {
                    ops.push(Op::BatchLookup(labels.clone()));
                }
                let e = m.epoch;
                if e >= 2 {
                    ops.push(Op::Audit(e - 2, e - 1));
                    ops.push(Op::Audit(0, e - 1));
                }
                ops.push(Op::Audit(e - 1, e));
                let mut fp = vec![];
                for op in &ops {
                    let res = do_op::<TC, _>(&reader, None, op).await;
                    self.rep.eval(1);
                    match judge_answer::<TC>(op, &res, m, &published, 0).await {
                        Ok(a) => fp.push(a.map(|x| (x + 1 - e.min(x + 1)).to_string()).unwrap_or("E".into())),
                        Err(b) => {
                            fp.push("BAD".into());
                            self.rep.violation(
                                format!("{}/lag1_all_histories/{}/{}/{}", TC::NAME, self.family, wn, b.kind),
                                json!({"history": show_history(&before.history), "then_published_underneath": show_batch(ev.batch), "reader_warmup": wn, "op": show_op(op), "detail": b.detail}),
                            );
                        }
                    }
                }
                self.rep.distinct(format!("{}:lag1:{}:{}", TC::NAME, wn, fp.join("")));
            }
            self.rep.traces(1);
        })
    }
}

fn run_lag_all<TC: ModelCfg>(args: &Args, rep: &Report) {
    let quick = args.quick();
    let st2 = akd::append_only_zks::AzksParallelismOption::Static(2);
    for par in [AzksParallelismConfig::disabled(), AzksParallelismConfig { insertion: st2, preload: st2 }] {
        if quick && par != AzksParallelismConfig::disabled() {
            continue;
        }
        let v = LagVisitor { rep, par, family: "base" };
        let cfg = WalkCfg { alphabet: base_alphabet::<TC>(), depth: if quick { 2 } else { 3 }, cache: CacheCfg::None, par, threads: args.threads };
        walk::<TC, _>(&cfg, &v);
        for orient in 0..2 {
            let v = LagVisitor { rep, par, family: "shape" };
            let cfg = WalkCfg { alphabet: shape_batches::<TC>(orient), depth: if quick { 2 } else { 3 }, cache: CacheCfg::None, par, threads: args.threads };
            walk::<TC, _>(&cfg, &v);
        }
    }
    rep.note(format!("{} lag-1 over all histories: base alphabet and shape alphabets ({}; {})", TC::NAME, shape_alphabet::<TC>(0).note, shape_alphabet::<TC>(1).note));
}

pub fn run(args: &Args) -> i32 {
    let rep = Report::new("C13", &args.tier, "model_checking");
    run_cfg::<W>(args, &rep);
    run_lag_all::<W>(args, &rep);
    if !args.quick() {
        run_cfg::<E>(args, &rep);
        run_lag_all::<E>(args, &rep);
    }
    rep.finish(
        "one evaluation = one complete schedule of a scenario (writer publishes x reader operation x instance kind x cache x poller x lag), all schedules within the deviation bound (preemption, failing commit, or letting the poll timer fire first). Oracle per reader answer: Err, or an (epoch, hash) the directory really published together with a proof that verifies against it to DirModel's result as of that epoch; after n poller notifications answers come from an epoch >= warm epoch + n. distinct = distinct (scenario, per-reader answered epoch / Err) outcomes",
        &["interleavings finer than storage-operation granularity are not explored", "the poller bound is the conservative one (warm epoch + number of notifications)", "blake3 collision resistance", "tokio 1.53 current-thread semantics with paused time"],
    )
}

/// re-execute one recorded schedule (identity = cfg/<case name>/kind) twice and re-judge it
pub fn replay(args: &Args, identity: &str, choices: Vec<u32>) -> i32 {
    let parts: Vec<&str> = identity.split('/').collect();
    if parts.len() < 3 {
        eprintln!("unrecognised identity {identity}");
        return 2;
    }
    let name = parts[1..parts.len() - 1].join("/");
    fn go<TC: ModelCfg>(args: &Args, name: &str, choices: Vec<u32>) -> i32 {
        let mut all = cases::<TC>(false);
        all.extend(cases::<TC>(true));
        let Some(case) = all.into_iter().find(|c| c.name == name) else {
            eprintln!("scenario {name} not found");
            return 2;
        };
        let rep = Report::new("C13", &args.tier, "model_checking");
        let mut traces = vec![];
        for _ in 0..2 {
            let mut ch = Chooser::new(choices.clone(), None);
            let out = run_scenario::<TC>(&case.sc, &mut ch);
            if let Some(d) = &ch.diverged {
                eprintln!("MACHINERY ERROR: replay diverged: {d}");
                return 2;
            }
            traces.push(show_steps(&out));
            rep.eval(1);
            rep.states(out.steps.len() as u64, out.steps.len() as u64);
            rep.traces(1);
            judge::<TC>(&rep, &case, &out, &ch);
        }
        if traces[0] != traces[1] {
            eprintln!("MACHINERY ERROR: the same schedule produced two different traces");
            return 2;
        }
        println!("replayed schedule ({} steps):\n{}", traces[0].len(), traces[0].join("\n"));
        let n = rep.violation_count();
        println!("verdict: {}", if n > 0 { "violation reproduced" } else { "no violation on this tree" });
        if n > 0 {
            1
        } else {
            0
        }
    }
    if parts[0] == "experimental" {
        go::<E>(args, &name, choices)
    } else {
        go::<W>(args, &name, choices)
    }
}
