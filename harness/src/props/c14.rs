//! C14 — results do not depend on parallelism, caching, preloading, batching or restarts.

use super::c01::{leaf_commitment, universe8};
use super::hist::*;
use crate::common::*;
use crate::conc::*;
use crate::explore::{explore, Chooser};
use crate::gate::{GateDb, GateVrf, OpDesc};
use crate::model::*;
use crate::oracles::*;
use crate::report::Report;
use crate::Args;
use akd::append_only_zks::{Azks, AzksParallelismConfig, AzksParallelismOption, InsertMode};
use akd::directory::Directory;
use akd::{AzksElement, AzksValue};
use serde_json::json;

#[derive(Clone, Copy, Debug)]
struct Variant {
    name: &'static str,
    par: AzksParallelismOption,
    cache: CacheCfg,
    /// advance the virtual clock by this many ms between calls
    tick_ms: u64,
    restart_every_call: bool,
    read_only_reader: bool,
}

fn variants(quick: bool) -> Vec<Variant> {
    let d = AzksParallelismOption::Disabled;
    let mut v = vec![
        Variant { name: "static1", par: AzksParallelismOption::Static(1), cache: CacheCfg::None, tick_ms: 0, restart_every_call: false, read_only_reader: false },
        Variant { name: "static2", par: AzksParallelismOption::Static(2), cache: CacheCfg::None, tick_ms: 0, restart_every_call: false, read_only_reader: false },
        Variant { name: "static4", par: AzksParallelismOption::Static(4), cache: CacheCfg::None, tick_ms: 0, restart_every_call: false, read_only_reader: false },
        Variant { name: "static32", par: AzksParallelismOption::Static(32), cache: CacheCfg::None, tick_ms: 0, restart_every_call: false, read_only_reader: false },
        Variant { name: "available_or_2", par: AzksParallelismOption::AvailableOr(2), cache: CacheCfg::None, tick_ms: 0, restart_every_call: false, read_only_reader: false },
        Variant { name: "cache_default", par: d, cache: CacheCfg::Default, tick_ms: 0, restart_every_call: false, read_only_reader: false },
        Variant { name: "cache_2ms_lifetime", par: d, cache: CacheCfg::Custom(2, None, 2), tick_ms: 3, restart_every_call: false, read_only_reader: false },
        Variant { name: "cache_600B_limit", par: d, cache: CacheCfg::Custom(30_000, Some(600), 2), tick_ms: 3, restart_every_call: false, read_only_reader: false },
        Variant { name: "cache_64B_limit_default_clean", par: d, cache: CacheCfg::Custom(30_000, Some(64), 15_000), tick_ms: 0, restart_every_call: false, read_only_reader: false },
        Variant { name: "cache_10B_limit_fast_clean", par: d, cache: CacheCfg::Custom(30_000, Some(10), 2), tick_ms: 3, restart_every_call: false, read_only_reader: false },
        Variant { name: "restart_every_call", par: d, cache: CacheCfg::None, tick_ms: 0, restart_every_call: true, read_only_reader: false },
        Variant { name: "read_only_reader", par: d, cache: CacheCfg::None, tick_ms: 0, restart_every_call: false, read_only_reader: true },
        Variant { name: "static4+cache_default+restart", par: AzksParallelismOption::Static(4), cache: CacheCfg::Default, tick_ms: 0, restart_every_call: true, read_only_reader: false },
        Variant { name: "static2+cache_2ms", par: AzksParallelismOption::Static(2), cache: CacheCfg::Custom(2, None, 2), tick_ms: 3, restart_every_call: false, read_only_reader: false },
        Variant { name: "available_or_2+cache_600B+read_only", par: AzksParallelismOption::AvailableOr(2), cache: CacheCfg::Custom(30_000, Some(600), 2), tick_ms: 3, restart_every_call: false, read_only_reader: true },
        Variant { name: "static32+cache_default", par: AzksParallelismOption::Static(32), cache: CacheCfg::Default, tick_ms: 0, restart_every_call: false, read_only_reader: false },
    ];
    if !quick {
        v.push(Variant { name: "static4+cache_600B+restart+read_only", par: AzksParallelismOption::Static(4), cache: CacheCfg::Custom(30_000, Some(600), 2), tick_ms: 3, restart_every_call: true, read_only_reader: true });
        v.push(Variant { name: "static2+cache_default+read_only", par: AzksParallelismOption::Static(2), cache: CacheCfg::Default, tick_ms: 20, restart_every_call: false, read_only_reader: true });
        v.push(Variant { name: "cache_default+31s_ticks", par: d, cache: CacheCfg::Default, tick_ms: 31_000, restart_every_call: false, read_only_reader: false });
    }
    v
}

fn feature_tag() -> &'static str {
    if cfg!(feature = "akd_default_feats") {
        "default_features"
    } else {
        "no_preload_no_parallel_vrf_features"
    }
}

/// run a whole history under a variant; after every publish the full reader suite must agree
/// with DirModel and storage must equal the reference run's storage
async fn run_history<TC: ModelCfg>(rep: &Report, hist: &[Batch], v: &Variant, reference_dumps: &[Vec<(Vec<u8>, akd::storage::types::DbRecord)>]) {
    crate::vclock::reset();
    let db = GateDb::new();
    let vrf = GateVrf::new();
    let par = AzksParallelismConfig { insertion: v.par, preload: v.par };
    let mut mgr = manager(&db, v.cache);
    let mut dir: Dir<TC> = Directory::<TC, _, _>::new(mgr.clone(), vrf.clone(), par).await.unwrap();
    let mut model = DirModel::default();
    let mut published = vec![model_root::<TC>(&model).0];
    let ident = |k: &str| format!("{}/{}/{}/{}", TC::NAME, feature_tag(), v.name, k);
    for (i, b) in hist.iter().enumerate() {
        if v.restart_every_call {
            drop(dir);
            mgr = manager(&db, v.cache);
            dir = Directory::<TC, _, _>::new(mgr.clone(), vrf.clone(), par).await.unwrap();
        }
        crate::vclock::advance_ms(v.tick_ms);
        let r = dir.publish(to_akd_batch(b)).await;
        let exp = model.publish(b);
        rep.eval(1);
        let hshow = || format!("{} (after call {})", show_history(hist), i + 1);
        match (&r, &exp) {
            (Err(_), MPublish::Rejected) => {}
            (Ok(eh), MPublish::NoChange) if eh.0 == model.epoch && eh.1 == published[model.epoch as usize] => {}
            (Ok(eh), MPublish::NewEpoch(e)) if eh.0 == *e && eh.1 == model_root::<TC>(&model).0 => published.push(eh.1),
            _ => {
                rep.violation(ident("publish_result_differs"), json!({"history": hshow(), "got": format!("{r:?}"), "expected": format!("{exp:?}")}));
                return;
            }
        }
        // storage identical to the reference configuration's storage at this point
        if let Some(refd) = reference_dumps.get(i) {
            if &db.dump().await != refd {
                rep.violation(ident("stored_tree_differs_from_reference_configuration"), json!({"history": hshow()}));
            }
        }
        crate::vclock::advance_ms(v.tick_ms);
        if v.restart_every_call {
            drop(dir);
            mgr = manager(&db, v.cache);
            dir = Directory::<TC, _, _>::new(mgr.clone(), vrf.clone(), par).await.unwrap();
        }
        let bads = if v.read_only_reader {
            let ro = RoDir::<TC>::new(manager(&db, v.cache), vrf.clone(), par).await.unwrap();
            reader_suite::<TC, _>(&ro, &model, &published, &super::c02::never_labels(), true).await
        } else {
            reader_suite::<TC, _>(&dir, &model, &published, &super::c02::never_labels(), true).await
        };
        for bd in bads {
            rep.violation(ident(&format!("reader/{}", bd.kind)), json!({"history": hshow(), "detail": bd.detail}));
        }
        // a second pass right away (now served from a warm cache, after another tick)
        if v.cache != CacheCfg::None && !v.read_only_reader {
            crate::vclock::advance_ms(v.tick_ms);
            for bd in reader_suite::<TC, _>(&dir, &model, &published, &[], true).await {
                rep.violation(ident(&format!("reader_second_pass/{}", bd.kind)), json!({"history": hshow(), "detail": bd.detail}));
            }
        }
    }
    rep.distinct(format!("{}:{}:{}", TC::NAME, v.name, show_history(hist)));
}

async fn reference_dumps<TC: ModelCfg>(hist: &[Batch]) -> Vec<Vec<(Vec<u8>, akd::storage::types::DbRecord)>> {
    let db = GateDb::new();
    let dir = new_dir::<TC>(&db, &GateVrf::new(), CacheCfg::None, AzksParallelismConfig::disabled()).await;
    let mut out = vec![];
    for b in hist {
        let _ = dir.publish(to_akd_batch(b)).await;
        out.push(db.dump().await);
    }
    out
}

fn histories<TC: ModelCfg>(quick: bool) -> Vec<Vec<Batch>> {
    let al = base_alphabet::<TC>();
    let mut hs: Vec<Vec<Batch>> = vec![];
    // all depth-2 histories (quick: first batch restricted to value x), depth-3 in thorough for a sub-alphabet
    for b1 in al.iter().filter(|b| !b.is_empty()) {
        if quick && b1.iter().any(|(_, v)| v == b"y") {
            continue;
        }
        for b2 in al.iter() {
            hs.push(vec![b1.clone(), b2.clone()]);
        }
    }
    if !quick {
        let sub: Vec<&Batch> = al.iter().filter(|b| b.len() == 1 || b.len() == 3).collect();
        for b1 in sub.iter().filter(|b| !b.iter().any(|(_, v)| v == b"y")) {
            for b2 in &sub {
                for b3 in &sub {
                    hs.push(vec![(*b1).clone(), (*b2).clone(), (*b3).clone()]);
                }
            }
        }
    }
    // tree-shape alphabets (node decompression with a simultaneous insertion below the pushed-down node,
    // both orientations): all depth-2 histories whose first batch is non-empty
    for orient in 0..2 {
        let sb = shape_batches::<TC>(orient);
        for b1 in sb.iter().filter(|b| !b.is_empty()) {
            for b2 in sb.iter() {
                if quick && (b1.len() != 2 || b2.len() > 2) {
                    continue;
                }
                hs.push(vec![b1.clone(), b2.clone()]);
            }
        }
    }
    let a = alphabet::<TC>();
    hs.extend(chain_histories(&a.labels[0], &a.labels[1], if quick { 5 } else { 9 }, 1));
    // the extended alphabet (empty / long labels and values, a rejected batch in the middle)
    let ext = ext_alphabet::<TC>();
    for b1 in &ext {
        for b2 in &ext {
            if quick && (b1.len() + b2.len()) % 2 == 1 {
                continue;
            }
            hs.push(vec![b1.clone(), b2.clone()]);
        }
    }
    hs
}

fn history_level<TC: ModelCfg>(args: &Args, rep: &Report) {
    let hs = histories::<TC>(args.quick());
    let vs = variants(args.quick());
    rep.count(&format!("{}:histories", TC::NAME), hs.len() as u64);
    rep.count("variants", vs.len() as u64);
    crate::explore::par_for(args.threads, &hs, |_, h| {
        crate::vclock::enable();
        let rt = crate::gate::plain_runtime();
        rt.block_on(async {
            let refd = reference_dumps::<TC>(h).await;
            for v in &vs {
                run_history::<TC>(rep, h, v, &refd).await;
            }
        });
        crate::vclock::disable();
    });
}

// ---- tree level: any order, any split into sub-batches within one epoch

fn ordered_partitions(items: &[usize]) -> Vec<Vec<Vec<usize>>> {
    // all ordered set partitions (sequences of non-empty disjoint blocks covering items)
    if items.is_empty() {
        return vec![vec![]];
    }
    let n = items.len();
    let mut out = vec![];
    // choose the first block as any non-empty subset, recurse on the rest
    for mask in 1u32..(1 << n) {
        let first: Vec<usize> = (0..n).filter(|i| mask & (1 << i) != 0).map(|i| items[i]).collect();
        let rest: Vec<usize> = (0..n).filter(|i| mask & (1 << i) == 0).map(|i| items[i]).collect();
        for mut tail in ordered_partitions(&rest) {
            let mut p = vec![first.clone()];
            p.append(&mut tail);
            out.push(p);
        }
    }
    out
}

async fn tree_shape<TC: ModelCfg>(elems: &[AzksElement], blocks: &[Vec<usize>], mode: InsertMode, par: AzksParallelismConfig) -> Option<(D32, u64, Vec<(Vec<u8>, akd::storage::types::DbRecord)>)> {
    let db = GateDb::new();
    let mgr = manager(&db, CacheCfg::None);
    let mut azks = Azks::new::<TC, _>(&mgr).await.ok()?;
    for (bi, blk) in blocks.iter().enumerate() {
        if bi > 0 {
            azks.latest_epoch -= 1; // same epoch, as the auditor does between its builds
        }
        let nodes: Vec<AzksElement> = blk.iter().map(|&i| elems[i]).collect();
        azks.batch_insert_nodes::<TC, _>(&mgr, nodes, mode, par).await.ok()?;
    }
    let root = azks.get_root_hash::<TC, _>(&mgr).await.ok()?;
    // canonical tree: latest node per label (previous values depend on the split by construction)
    let dump: Vec<(Vec<u8>, akd::storage::types::DbRecord)> = db
        .dump()
        .await
        .into_iter()
        .map(|(k, r)| match r {
            akd::storage::types::DbRecord::TreeNode(mut n) => {
                n.previous_node = None;
                (k, akd::storage::types::DbRecord::TreeNode(n))
            }
            other => (k, other),
        })
        .collect();
    Some((root, azks.num_nodes, dump))
}

fn tree_level<TC: ModelCfg>(args: &Args, rep: &Report) {
    let uni = universe8();
    let kmax = if args.quick() { 4 } else { 5 };
    let mut subsets: Vec<Vec<usize>> = vec![];
    for mask in 1u32..256 {
        let s: Vec<usize> = (0..8).filter(|i| mask & (1 << i) != 0).collect();
        if s.len() <= kmax {
            subsets.push(s);
        }
    }
    crate::explore::par_for(args.threads, &subsets, |_, set| {
        let rt = crate::gate::plain_runtime();
        rt.block_on(async {
            let elems: Vec<AzksElement> = (0..8).map(|i| AzksElement { label: bits_nl(&uni[i]), value: AzksValue(leaf_commitment(i)) }).collect();
            let leaves: Vec<MLeaf> = set.iter().map(|&i| MLeaf { label: uni[i].clone(), commitment: leaf_commitment(i), epoch: 1 }).collect();
            let model = trie::<TC>(&leaves);
            let reference = tree_shape::<TC>(&elems, &[set.clone()], InsertMode::Directory, AzksParallelismConfig::disabled()).await;
            let Some((root, nn, dump)) = reference else {
                rep.violation(format!("{}/tree/reference_insert_failed", TC::NAME), json!({"set": set}));
                return;
            };
            if root != model.root_hash {
                rep.violation(format!("{}/tree/reference_differs_from_model", TC::NAME), json!({"set": set}));
            }
            for p in ordered_partitions(set) {
                for par in [AzksParallelismConfig::disabled(), AzksParallelismConfig { insertion: AzksParallelismOption::Static(4), preload: AzksParallelismOption::Static(4) }] {
                    // each block also reversed (order inside a batch)
                    for rev in [false, true] {
                        let blocks: Vec<Vec<usize>> = p.iter().map(|b| if rev { b.iter().rev().cloned().collect() } else { b.clone() }).collect();
                        rep.eval(1);
                        match tree_shape::<TC>(&elems, &blocks, InsertMode::Directory, par).await {
                            Some((r2, n2, d2)) if r2 == root && d2 == dump => {
                                if n2 != nn {
                                    rep.count("node_counter_depends_on_sub_batching", 1);
                                }
                            }
                            other => rep.violation(
                                format!("{}/tree/sub_batching_or_order_changes_tree/{}", TC::NAME, if par.insertion == AzksParallelismOption::Disabled { "sequential" } else { "static4" }),
                                json!({"set": set, "blocks": blocks, "same_root": other.as_ref().map(|o| o.0 == root), "same_node_count": other.as_ref().map(|o| o.1 == nn)}),
                            ),
                        }
                    }
                }
            }
            // mixed-length node sets (auditor mode): every cut of the tree, in every order (<= 5 elements)
            let nodes = model.nodes();
            for mask in 1u32..(1u32 << nodes.len()) {
                let idx: Vec<usize> = (0..nodes.len()).filter(|i| mask & (1 << i) != 0).collect();
                if idx.len() > 5 {
                    continue;
                }
                // a cut: prefix-free and covering every leaf
                let labels: Vec<&Bits> = idx.iter().map(|&i| &nodes[i].label).collect();
                let prefix_free = labels.iter().enumerate().all(|(a, la)| labels.iter().enumerate().all(|(b, lb)| a == b || !la.is_prefix_of(lb)));
                let covers = leaves.iter().all(|l| labels.iter().any(|n| n.is_prefix_of(&l.label)));
                if !prefix_free || !covers {
                    continue;
                }
                let cut: Vec<AzksElement> = idx.iter().map(|&i| AzksElement { label: bits_nl(&nodes[i].label), value: AzksValue(nodes[i].value) }).collect();
                let order: Vec<usize> = (0..cut.len()).collect();
                for perm in permutations(&order) {
                    rep.eval(1);
                    match tree_shape::<TC>(&cut, &[perm.clone()], InsertMode::Auditor, AzksParallelismConfig::default()).await {
                        Some((r2, _, _)) if r2 == root => {}
                        _ => rep.violation(format!("{}/tree/mixed_length_cut_order_changes_root", TC::NAME), json!({"set": set, "cut": labels.iter().map(|l| l.show()).collect::<Vec<_>>(), "order": perm})),
                    }
                }
            }
            rep.distinct(format!("{}:tree:{:?}", TC::NAME, set));
        });
    });
}

pub fn permutations_pub(items: &[usize]) -> Vec<Vec<usize>> {
    permutations(items)
}

fn permutations(items: &[usize]) -> Vec<Vec<usize>> {
    if items.len() <= 1 {
        return vec![items.to_vec()];
    }
    let mut out = vec![];
    for i in 0..items.len() {
        let mut rest = items.to_vec();
        let x = rest.remove(i);
        for mut p in permutations(&rest) {
            p.insert(0, x);
            out.push(p);
        }
    }
    out
}

// ---- E2: all interleavings of the subtasks of ONE publish with parallel insertion / preload

fn no_fault(_: &OpDesc) -> bool {
    false
}

fn subtask_interleavings<TC: ModelCfg>(args: &Args, rep: &Report) {
    // four labels whose version-1 node labels start with 00, 01, 10 and 11: both subtrees of the root and
    // of its children get work, so parallel insertion really spawns tasks at two levels
    let mut spread: Vec<Option<Vec<u8>>> = vec![None; 4];
    for i in 0..200 {
        let l = format!("p{i}").into_bytes();
        let nl = node_label::<TC>(&l, true, 1);
        let idx = (nl.label_val[0] >> 6) as usize;
        if spread[idx].is_none() {
            spread[idx] = Some(l);
        }
    }
    let ls: Vec<Vec<u8>> = spread.into_iter().map(|o| o.expect("label for every 2-bit prefix")).collect();
    let x = b"x".to_vec();
    let y = b"y".to_vec();
    let initial: Vec<Batch> = vec![ls.iter().map(|l| (l.clone(), x.clone())).collect()];
    let batch: Batch = ls.iter().map(|l| (l.clone(), y.clone())).collect();
    for (pname, par, cache) in [
        ("static2_nocache", AzksParallelismOption::Static(2), CacheCfg::None),
        ("static4_nocache", AzksParallelismOption::Static(4), CacheCfg::None),
        ("static4_cache", AzksParallelismOption::Static(4), CacheCfg::Default),
    ] {
        let sc = Scenario {
            initial: initial.clone(),
            actors: vec![Actor { name: "P".into(), inst: Inst::Writer, ops: vec![Op::Publish(batch.clone())] }],
            writer_cache: cache,
            reader_cache: CacheCfg::None,
            par: AzksParallelismConfig { insertion: par, preload: par },
            reader_warmup: vec![],
            lag_publishes: vec![],
            poller: false,
            gate_vrf: false,
            post_gates: false,
            faults: 0,
            faultable: no_fault,
            cold_writer_cache: cache != CacheCfg::None,
        };
        let mut model = DirModel::default();
        for bb in &initial {
            model.publish(bb);
        }
        model.publish(&batch);
        let want_root = model_root::<TC>(&model).0;
        let published: Vec<D32> = (0..=model.epoch).map(|e| model_root::<TC>(&model.as_of(e)).0).collect();
        let bound = if args.quick() { 2 } else { 3 };
        let refdump = std::sync::Mutex::new(None::<Vec<(Vec<u8>, akd::storage::types::DbRecord)>>);
        let stats = explore(args.threads, bound, if args.quick() { 30_000 } else { 600_000 }, |ch: &mut Chooser| {
            let out = run_scenario::<TC>(&sc, ch);
            rep.eval(1);
            rep.states(out.steps.len() as u64, out.steps.len() as u64);
            rep.traces(1);
            if std::env::var("AKDMC_DEBUG_STEPS").is_ok() {
                eprintln!("--- {pname} choices={:?}\n{}", ch.choices(), show_steps(&out).join("\n"));
            }
            let ident = |k: &str| format!("{}/subtasks/{}/{}", TC::NAME, pname, k);
            let detail = |e: serde_json::Value| json!({"choices": ch.choices(), "preemptions": ch.cost(), "schedule": show_steps(&out), "observed": e});
            if out.horizon {
                rep.violation(ident("deadlock_or_horizon"), detail(json!({})));
                return;
            }
            match out.results[0].first() {
                Some((OpResult::Publish(Ok(eh)), _, _)) if eh.0 == model.epoch && eh.1 == want_root => {}
                Some((OpResult::Publish(r), _, _)) => {
                    rep.violation(ident("publish_result_depends_on_schedule"), detail(json!({"got": format!("{r:?}")})));
                    return;
                }
                _ => return,
            }
            let rt = crate::gate::plain_runtime();
            rt.block_on(async {
                let d = out.db.dump().await;
                let mut g = refdump.lock().unwrap();
                match &*g {
                    None => *g = Some(d),
                    Some(r) => {
                        if *r != d {
                            rep.violation(ident("stored_tree_depends_on_schedule"), detail(json!({})));
                        }
                    }
                }
                drop(g);
                let fresh = new_dir::<TC>(&out.db, &out.vrf, CacheCfg::None, AzksParallelismConfig::disabled()).await;
                for bd in reader_suite::<TC, _>(&fresh, &model, &published, &[], true).await {
                    rep.violation(ident(&format!("reader/{}", bd.kind)), detail(json!({"detail": bd.detail})));
                }
            });
        });
        rep.count(&format!("{}:subtasks:{}:executions", TC::NAME, pname), stats.executions);
        if stats.capped {
            rep.cap_hit(format!("{} subtasks {} cap hit at bound {}", TC::NAME, pname, bound));
        }
    }
}

pub fn run(args: &Args) -> i32 {
    let child = std::env::var("AKDMC_C14_CHILD").is_ok();
    let rep = Report::new("C14", &args.tier, "exploration");
    if !crate::vclock::self_check() {
        eprintln!("MACHINERY ERROR: virtual clock interposition not effective");
        return 2;
    }
    history_level::<W>(args, &rep);
    history_level::<E>(args, &rep);
    if !child {
        tree_level::<W>(args, &rep);
        tree_level::<E>(args, &rep);
        subtask_interleavings::<W>(args, &rep);
        if !args.quick() {
            subtask_interleavings::<E>(args, &rep);
        }
        // the other feature set: the same history-level check in a binary built without
        // greedy_lookup_preload / preload_history / parallel_vrf
        match std::env::var("AKDMC_NOFEAT_BIN") {
            Ok(bin) if std::path::Path::new(&bin).exists() => {
                let tmp = format!("{}/harness/target-nofeat/verifdir", std::env::var("VERIF_DIR").unwrap_or("/verif".into()));
                let _ = std::fs::create_dir_all(&tmp);
                let _ = std::fs::copy(format!("{}/known_findings.json", std::env::var("VERIF_DIR").unwrap_or("/verif".into())), format!("{tmp}/known_findings.json"));
                let out = std::process::Command::new(&bin).arg("C14").arg("--tier").arg(&args.tier).env("AKDMC_C14_CHILD", "1").env("VERIF_DIR", &tmp).output();
                match out {
                    Ok(o) => {
                        let so = String::from_utf8_lossy(&o.stdout).to_string();
                        let se = String::from_utf8_lossy(&o.stderr).to_string();
                        if let Ok(ev) = std::fs::read_to_string(format!("{tmp}/evidence/C14.json")).map_err(|e| e.to_string()).and_then(|s| serde_json::from_str::<serde_json::Value>(&s).map_err(|e| e.to_string())) {
                            rep.eval(ev["coverage"]["evaluations"].as_u64().unwrap_or(0));
                            rep.extra("other_feature_set_run", json!({"binary": bin, "evaluations": ev["coverage"]["evaluations"], "distinct": ev["coverage"]["distinct_nontrivial"], "violations": ev["violations"], "exit": o.status.code()}));
                        }
                        match o.status.code() {
                            Some(0) => {}
                            Some(1) => {
                                for line in se.lines().filter(|l| l.trim_start().starts_with("identity:")) {
                                    rep.violation(format!("other_feature_set/{}", line.trim_start().trim_start_matches("identity:").trim()), json!({"stdout": so.lines().take(5).collect::<Vec<_>>()}));
                                }
                                if rep.violation_count() == 0 {
                                    rep.violation("other_feature_set/violation".into(), json!({"stdout": so}));
                                }
                            }
                            other => {
                                eprintln!("MACHINERY ERROR: the no-feature build of the harness failed to run: {other:?}\n{se}");
                                return 2;
                            }
                        }
                    }
                    Err(e) => {
                        eprintln!("MACHINERY ERROR: cannot run {bin}: {e}");
                        return 2;
                    }
                }
            }
            _ => rep.note("AKDMC_NOFEAT_BIN not set: the feature-set comparison was not run in this invocation".into()),
        }
    }
    rep.extra("this_build_features", json!(feature_tag()));
    rep.sample(json!({"variants": variants(args.quick()).iter().map(|v| v.name).collect::<Vec<_>>()}));
    rep.finish(
        "history level: every history of the plan (all depth-2 histories over the 27-batch alphabet, extended alphabet pairs, update chains; thorough adds depth 3) is run under each variant (insertion+preload parallelism Static(1/2/4/32) and AvailableOr, cache default / 2 ms lifetime with the virtual clock ticking between calls / 600-byte memory limit, restart of Directory+StorageManager around every call, reads through a ReadOnlyDirectory, and combinations) and after every publish the returned epoch hash, the full reader suite (lookups, histories, audits, twice when cached) and the stored tree must equal the reference configuration / DirModel; the same is repeated by a second build of the harness without the preload / parallel-VRF features. Tree level: every <=4 (thorough 5)-subset of the 8-label universe inserted as every ordered partition into sub-batches within one epoch (each block also reversed, sequential and Static(4)) and every cut of the tree inserted in every order (auditor mode) must give the same tree. E2: all interleavings (<=2, thorough <=3 preemptions) of the subtasks of one publish with Static(2)/Static(4) insertion and preload",
        &["virtual monotonic clock through clock_gettime interposition (self-checked)", "C01-C04 establish the reference configuration against the model", "blake3 collision resistance"],
    )
}
