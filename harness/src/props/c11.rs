//! C11 — a reader of a partially written commit still sees the previous epoch intact.
//!
//! Every commit along the bounded history space is captured at the TransactionCommit batch_set
//! (nothing applied, the call fails like a crash). With B = batch minus the epoch record, a fresh
//! database = pre-commit snapshot + W is built for every subset W of B (all subsets when |B| is
//! small, otherwise all prefixes of three canonical orders plus all subsets of size <= 2 and
//! >= |B|-2) and opened by new reader instances.

use super::hist::*;
use crate::common::*;
use crate::gate::{CommitPlan, GateDb};
use crate::model::*;
use crate::oracles::*;
use crate::report::Report;
use crate::Args;
use akd::append_only_zks::AzksParallelismConfig;
use akd::storage::types::DbRecord;
use akd::storage::{Database, DbSetState};
use serde_json::json;
use std::future::Future;
use std::pin::Pin;

struct V11<'r> {
    rep: &'r Report,
    full_subsets_max: usize,
    thorough: bool,
}

fn subsets_menu(n: usize, full_max: usize) -> (Vec<u64>, bool) {
    if n <= full_max {
        return ((0..(1u64 << n)).collect(), true);
    }
    let mut set = std::collections::BTreeSet::new();
    // prefixes of three canonical orders: key order, reverse key order, interleaved from both ends
    let mut m = 0u64;
    set.insert(0);
    for i in 0..n {
        m |= 1 << i;
        set.insert(m);
    }
    m = 0;
    for i in (0..n).rev() {
        m |= 1 << i;
        set.insert(m);
    }
    m = 0;
    let (mut lo, mut hi) = (0usize, n - 1);
    let mut turn = false;
    while lo <= hi {
        let i = if turn { hi } else { lo };
        m |= 1 << i;
        set.insert(m);
        if turn {
            if hi == 0 {
                break;
            }
            hi -= 1;
        } else {
            lo += 1;
        }
        turn = !turn;
    }
    // all subsets of size <= 2 and >= n-2
    let full = (1u64 << n) - 1;
    for i in 0..n {
        set.insert(1 << i);
        set.insert(full & !(1 << i));
        for j in i + 1..n {
            set.insert((1 << i) | (1 << j));
            set.insert(full & !((1 << i) | (1 << j)));
        }
    }
    (set.into_iter().collect(), false)
}

struct Ctx11<TC: ModelCfg> {
    db: GateDb,
    vrf: crate::gate::GateVrf,
    model: DirModel,
    published: Vec<D32>,
    history: Vec<Batch>,
    _tc: std::marker::PhantomData<TC>,
}

impl<'r> V11<'r> {
    async fn crash_commit<TC: ModelCfg>(&self, ctx: &Ctx11<TC>, next: &Batch) {
        {
            {
                let mut model_new = ctx.model.clone();
                if !matches!(model_new.publish(next), MPublish::NewEpoch(_)) {
                    return;
                }
                let hist = || format!("{} ; CRASH DURING {}", show_history(&ctx.history), show_batch(next));
                // run the publish with the commit captured
                let db = ctx.db.fork().await;
                // every write call of the publish is recorded and swallowed (however the implementation groups
                // its writes); nothing reaches storage
                *db.ctl.commit_plan.lock().unwrap() = CommitPlan::CaptureAll;
                let dir = new_dir::<TC>(&db, &ctx.vrf, CacheCfg::None, AzksParallelismConfig::disabled()).await;
                let res = dir.publish(to_akd_batch(next)).await;
                *db.ctl.commit_plan.lock().unwrap() = CommitPlan::Apply;
                let captured = std::mem::take(&mut *db.ctl.captured.lock().unwrap());
                if captured.is_empty() {
                    self.rep.violation(
                        format!("{}/publish_wrote_nothing", TC::NAME),
                        json!({"history": hist(), "result_ok": res.is_ok()}),
                    );
                    return;
                }
                if db.ctl.commit_azks_last_violations.load(std::sync::atomic::Ordering::SeqCst) > 0 {
                    self.rep.violation(format!("{}/epoch_record_not_last_in_commit", TC::NAME), json!({"history": hist()}));
                }
                // the epoch record must be part of the LAST write call only
                let ncalls = captured.len();
                for (ci, call) in captured.iter().enumerate() {
                    if ci + 1 < ncalls && call.iter().any(|r| matches!(r, DbRecord::Azks(_))) {
                        self.rep.violation(format!("{}/epoch_record_written_before_other_records", TC::NAME), json!({"history": hist(), "write_call": ci, "of": ncalls}));
                    }
                }
                // union of all written records (the last write of a key wins)
                let mut by_key: std::collections::BTreeMap<Vec<u8>, DbRecord> = std::collections::BTreeMap::new();
                for call in captured.into_iter() {
                    for r in call {
                        by_key.insert(crate::gate::rec_key(&r), r);
                    }
                }
                let (azks_rec, body): (Vec<DbRecord>, Vec<DbRecord>) = by_key.into_values().partition(|r| matches!(r, DbRecord::Azks(_)));
                if azks_rec.len() != 1 {
                    self.rep.violation(format!("{}/commit_without_single_epoch_record", TC::NAME), json!({"history": hist()}));
                    return;
                }
                let snapshot: Vec<DbRecord> = db.dump().await.into_iter().map(|(_, r)| r).collect();
                if snapshot != ctx.db.dump().await.into_iter().map(|(_, r)| r).collect::<Vec<_>>() {
                    self.rep.violation(format!("{}/storage_written_outside_the_commit", TC::NAME), json!({"history": hist()}));
                }
                let n = body.len();
                let (menu, full) = subsets_menu(n, self.full_subsets_max);
                if !full {
                    self.rep.count("commits_with_reduced_subset_menu", 1);
                } else {
                    self.rep.count("commits_with_all_subsets", 1);
                }
                let absent: Vec<Vec<u8>> = next.iter().map(|(l, _)| l.clone()).filter(|l| !ctx.model.users.contains_key(l)).collect();
                self.rep.distinct(format!("{}:{}:{}", TC::NAME, show_history(&ctx.history), show_batch(next)));
                for mask in menu {
                    let mut recs = snapshot.clone();
                    for (i, r) in body.iter().enumerate() {
                        if mask & (1 << i) != 0 {
                            recs.push(r.clone());
                        }
                    }
                    let dbw = GateDb::from_records(recs).await;
                    self.rep.eval(1);
                    // a read-only instance (no cache)
                    match RoDir::<TC>::new(manager(&dbw, CacheCfg::None), ctx.vrf.clone(), AzksParallelismConfig::disabled()).await {
                        Err(e) => self.rep.violation(format!("{}/reader_cannot_open", TC::NAME), json!({"history": hist(), "error": format!("{e:?}")})),
                        Ok(ro) => {
                            for b in reader_suite::<TC, _>(&ro, &ctx.model, &ctx.published, &absent, !self.thorough || ctx.history.len() >= 2).await {
                                self.rep.violation(
                                    format!("{}/partial_commit/readonly/{}", TC::NAME, b.kind),
                                    json!({"history": hist(), "written": format!("{mask:#b} of {n} records"), "detail": b.detail,
                                           "records": body.iter().enumerate().filter(|(i, _)| mask & (1 << i) != 0).map(|(_, r)| crate::gate::short_key(&crate::gate::rec_key(r))).collect::<Vec<_>>()}),
                                );
                            }
                        }
                    }
                    // a full Directory with the default cache (thorough, or for the extreme masks)
                    // (thorough: for the crash states with at most two records written or missing; quick: the extremes)
                    let pc = (mask as u64).count_ones() as usize;
                    if (self.thorough && (pc <= 2 || pc + 2 >= n)) || mask == 0 || mask == (1u64 << n) - 1 {
                        let d = new_dir::<TC>(&dbw, &ctx.vrf, CacheCfg::Default, AzksParallelismConfig::disabled()).await;
                        for b in reader_suite::<TC, _>(&d, &ctx.model, &ctx.published, &absent, true).await {
                            self.rep.violation(
                                format!("{}/partial_commit/directory_cached/{}", TC::NAME, b.kind),
                                json!({"history": hist(), "written": format!("{mask:#b} of {n} records"), "detail": b.detail}),
                            );
                        }
                    }
                    // the caller's retry: a writer restarted on the partially written storage publishes the SAME batch
                    // again. No property promises that this succeeds (after an arbitrary partial write akd refuses
                    // with an error, which is fine); but if it reports success it must have written the epoch record
                    // of the model's next epoch, and then "the new epoch is served completely" applies
                    // (thorough tier, prefixes of two epochs: only for crash states with at most two records written or missing)
                    if !self.thorough || ctx.history.len() < 2 || pc <= 2 || pc + 2 >= n {
                        let dbr = dbw.fork().await;
                        let wd = new_dir::<TC>(&dbr, &ctx.vrf, CacheCfg::None, AzksParallelismConfig::disabled()).await;
                        let mut pub2 = ctx.published.clone();
                        pub2.push(model_root::<TC>(&model_new).0);
                        self.rep.eval(1);
                        match wd.publish(to_akd_batch(next)).await {
                            Err(_) => self.rep.count("retry_after_partial_commit_refused", 1),
                            Ok(eh) if eh.0 == model_new.epoch && eh.1 == pub2[model_new.epoch as usize] => {
                                self.rep.count("retry_after_partial_commit_completed", 1);
                                for b in reader_suite::<TC, _>(&wd, &model_new, &pub2, &[], true).await {
                                    self.rep.violation(
                                        format!("{}/retry_after_partial_commit/new_epoch_not_served_completely/{}", TC::NAME, b.kind),
                                        json!({"history": hist(), "written": format!("{mask:#b} of {n} records"), "detail": b.detail}),
                                    );
                                }
                            }
                            Ok(eh) => self.rep.violation(
                                format!("{}/retry_after_partial_commit/success_reported_with_wrong_epoch_hash", TC::NAME),
                                json!({"history": hist(), "written": format!("{mask:#b} of {n} records"), "got": [eh.0, hex::encode(eh.1)], "expected_epoch": model_new.epoch}),
                            ),
                        }
                    }
                    if mask == (1u64 << n) - 1 {
                        // now the epoch record lands: the new epoch is served completely
                        dbw.inner.batch_set(azks_rec.clone(), DbSetState::General).await.unwrap();
                        let mut published = ctx.published.clone();
                        published.push(model_root::<TC>(&model_new).0);
                        let ro = RoDir::<TC>::new(manager(&dbw, CacheCfg::None), ctx.vrf.clone(), AzksParallelismConfig::disabled()).await.unwrap();
                        for b in reader_suite::<TC, _>(&ro, &model_new, &published, &[], false).await {
                            self.rep.violation(format!("{}/after_epoch_record/{}", TC::NAME, b.kind), json!({"history": hist(), "detail": b.detail}));
                        }
                    }
                }
                self.rep.sample(json!({"cfg": TC::NAME, "history": hist(), "commit_records": n + 1, "subsets_examined": if full { 1u64 << n } else { 0 },
                    "records": body.iter().map(|r| crate::gate::short_key(&crate::gate::rec_key(r))).collect::<Vec<_>>()}));
            }
        }
    }
}

fn run_cfg<TC: ModelCfg>(args: &Args, v: &V11, depth: usize) {
    run_alpha::<TC>(args, v, depth, base_alphabet::<TC>(), false);
    // tree-shape alphabets: prefixes = the two-label batches (quick: one orientation), every shape batch crashes
    for orient in 0..(if v.thorough { 2 } else { 1 }) {
        run_alpha::<TC>(args, v, 1, shape_batches::<TC>(orient), true);
    }
}

fn run_alpha<TC: ModelCfg>(args: &Args, v: &V11, depth: usize, alphabet: Vec<Batch>, pairs_only: bool) {
    // prefix histories (index sequences) of length <= depth; quick: value x only
    let mut prefixes: Vec<Vec<usize>> = vec![vec![]];
    let mut frontier: Vec<Vec<usize>> = vec![vec![]];
    for _ in 0..depth {
        let mut next = vec![];
        for p in &frontier {
            for (i, b) in alphabet.iter().enumerate() {
                // prefix histories use value x only (shape classes); the crashing batch ranges over x and y
                if b.is_empty() || b.iter().any(|(_, val)| val == b"y") || (pairs_only && b.len() != 2) {
                    continue;
                }
                let mut q = p.clone();
                q.push(i);
                next.push(q);
            }
        }
        prefixes.extend(next.iter().cloned());
        frontier = next;
    }
    let mut items: Vec<(Vec<usize>, usize)> = vec![];
    for p in &prefixes {
        for i in 0..alphabet.len() {
            // tree-shape alphabets: crashing batches of at most two labels (larger commits only repeat the shapes)
            if pairs_only && alphabet[i].len() > 2 {
                continue;
            }
            items.push((p.clone(), i));
        }
    }
    let alphabet = &alphabet;
    crate::explore::par_for(args.threads, &items, |_, (p, ni)| {
        let rt = crate::gate::plain_runtime();
        rt.block_on(async {
            let history: Vec<Batch> = p.iter().map(|&i| alphabet[i].clone()).collect();
            let (db, model) = super::c06::replay_prefix::<TC>(&history).await;
            // distinct stored states only: skip prefixes whose last batch changed nothing
            let mut m2 = DirModel::default();
            let mut last_new = true;
            for b in &history {
                last_new = matches!(m2.publish(b), MPublish::NewEpoch(_));
            }
            if !last_new {
                return;
            }
            let published: Vec<D32> = (0..=model.epoch).map(|e| model_root::<TC>(&model.as_of(e)).0).collect();
            let ctx = Ctx11::<TC> { db, vrf: crate::gate::GateVrf::new(), model, published, history, _tc: Default::default() };
            v.crash_commit::<TC>(&ctx, &alphabet[*ni]).await;
        });
    });
}

pub fn run(args: &Args) -> i32 {
    let rep = Report::new("C11", &args.tier, "fault_enumeration");
    let (depth, full_max) = if args.quick() { (1, 7) } else { (2, 8) };
    let v = V11 { rep: &rep, full_subsets_max: full_max, thorough: !args.quick() };
    run_cfg::<W>(args, &v, depth);
    run_cfg::<E>(args, &v, depth);
    rep.extra("plan", json!(format!("prefix histories of depth <= {depth} over the 27-batch alphabet (prefix batches restricted to value x: shape classes; the crashing batch ranges over all 27) and depth-1 prefixes over the tree-shape alphabets, then every next batch that creates an epoch; all subsets of the commit body when it has <= {full_max} records, else prefixes of 3 orders + all subsets of size <=2 / >=n-2")));
    rep.finish(
        "one evaluation = one crash state (pre-commit snapshot + a subset W of the commit's non-epoch records) opened by a fresh read-only instance (and a cached Directory) whose epoch hash, lookups, histories (Complete, MostRecent(1), MostRecent(2)) and audits must verify to DirModel at the previous epoch, with labels of the unfinished epoch invisible; after the epoch record lands the new epoch must be served completely. distinct = distinct (configuration, prefix history, crashing batch)",
        &["record-level atomicity of storage writes (the property's premise)", "blake3 collision resistance", "hard-coded test VRF key"],
    )
}
