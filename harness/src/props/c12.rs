//! C12 — concurrent publishes take effect one after another.
//!
//! Model checking (E2): 2–3 real publish calls as tokio tasks on clones of one Directory under the
//! controlled scheduler; every schedule with a bounded number of preemptions at the granularity
//! of storage operations and VRF key fetches is executed to completion, detached tasks drained,
//! and the outcome judged: some serial order of the successful calls must explain every returned
//! (epoch, hash) and the final state.

use super::hist::*;
use crate::common::*;
use crate::conc::*;
use crate::explore::{explore, Chooser};
use crate::gate::OpDesc;
use crate::model::*;
use crate::oracles::*;
use crate::report::Report;
use crate::Args;
use akd::append_only_zks::AzksParallelismConfig;
use akd::EpochHash;
use serde_json::json;

fn no_fault(_: &OpDesc) -> bool {
    false
}
fn real_call(d: &OpDesc) -> bool {
    d.kind != "start" && d.kind != "vrf_key"
}

fn permutations(n: usize) -> Vec<Vec<usize>> {
    fn rec(cur: &mut Vec<usize>, used: &mut Vec<bool>, n: usize, out: &mut Vec<Vec<usize>>) {
        if cur.len() == n {
            out.push(cur.clone());
            return;
        }
        for i in 0..n {
            if !used[i] {
                used[i] = true;
                cur.push(i);
                rec(cur, used, n, out);
                cur.pop();
                used[i] = false;
            }
        }
    }
    let mut out = vec![];
    rec(&mut vec![], &mut vec![false; n], n, &mut out);
    out
}

/// Is there a serial order of the Ok calls that explains every returned pair? Returns the final model.
fn linearize<TC: ModelCfg>(m0: &DirModel, calls: &[(Batch, Option<EpochHash>)]) -> Option<(DirModel, Vec<usize>)> {
    let ok: Vec<usize> = (0..calls.len()).filter(|&i| calls[i].1.is_some()).collect();
    'perm: for p in permutations(ok.len()) {
        let mut m = m0.clone();
        for &pi in &p {
            let (batch, eh) = &calls[ok[pi]];
            let eh = eh.as_ref().unwrap();
            match m.publish(batch) {
                MPublish::Rejected => continue 'perm,
                MPublish::NoChange | MPublish::NewEpoch(_) => {
                    if eh.0 != m.epoch || eh.1 != model_root::<TC>(&m).0 {
                        continue 'perm;
                    }
                }
            }
        }
        return Some((m, p.iter().map(|&pi| ok[pi]).collect()));
    }
    None
}

struct ScCase {
    name: &'static str,
    sc: Scenario,
}

fn scenarios<TC: ModelCfg>(quick: bool, three: bool) -> Vec<ScCase> {
    let al = alphabet::<TC>();
    let (a, b, c) = (al.labels[0].clone(), al.labels[1].clone(), al.labels[2].clone());
    let x = b"x".to_vec();
    let y = b"y".to_vec();
    let z = b"z".to_vec();
    let initial1: Vec<Batch> = vec![vec![(a.clone(), x.clone())]];
    let sa = shape_alphabet::<TC>(0);
    let (sp, sq, sr, ss) = (sa.labels[0].clone(), sa.labels[1].clone(), sa.labels[2].clone(), sa.labels[3].clone());
    let pairs: Vec<(&'static str, Vec<Batch>, Batch, Batch)> = vec![
        ("disjoint_inserts", initial1.clone(), vec![(b.clone(), x.clone())], vec![(c.clone(), x.clone())]),
        ("same_label_updates", initial1.clone(), vec![(a.clone(), y.clone())], vec![(a.clone(), z.clone())]),
        ("update_vs_insert", initial1.clone(), vec![(a.clone(), y.clone())], vec![(b.clone(), x.clone())]),
        ("noop_vs_insert", initial1.clone(), vec![(a.clone(), x.clone())], vec![(b.clone(), x.clone())]),
        ("same_insert_twice", initial1.clone(), vec![(b.clone(), x.clone())], vec![(b.clone(), x.clone())]),
        ("first_epoch_inserts", vec![], vec![(a.clone(), x.clone())], vec![(b.clone(), x.clone())]),
        ("mixed_batches", initial1.clone(), vec![(a.clone(), y.clone()), (b.clone(), x.clone())], vec![(b.clone(), y.clone()), (c.clone(), x.clone())]),
        // tree-shape pair: over the interior node of {p,q}, one publish splits the compressed edge above it, the
        // other inserts below it
        ("shape_split_vs_insert_below", vec![vec![(sp.clone(), x.clone()), (sq.clone(), x.clone())]], vec![(sr.clone(), x.clone())], vec![(ss.clone(), x.clone())]),
    ];
    let mut out = vec![];
    for (name, initial, b1, b2) in pairs {
        for cache in [CacheCfg::None, CacheCfg::Default] {
            if quick && cache == CacheCfg::Default && !matches!(name, "disjoint_inserts" | "same_label_updates") {
                continue;
            }
            let mut actors = vec![
                Actor { name: "P1".into(), inst: Inst::Writer, ops: vec![Op::Publish(b1.clone())] },
                Actor { name: "P2".into(), inst: Inst::WriterClone, ops: vec![Op::Publish(b2.clone())] },
            ];
            if three {
                actors.push(Actor { name: "P3".into(), inst: Inst::WriterClone, ops: vec![Op::Publish(vec![(c.clone(), y.clone())])] });
            }
            out.push(ScCase {
                name,
                sc: Scenario {
                    initial: initial.clone(),
                    actors,
                    writer_cache: cache,
                    reader_cache: CacheCfg::None,
                    par: AzksParallelismConfig::disabled(),
                    reader_warmup: vec![],
                    lag_publishes: vec![],
                    poller: false,
                    gate_vrf: true,
                    post_gates: false,
                    faults: 0,
                    faultable: no_fault,
                    cold_writer_cache: false,
                },
            });
        }
    }
    // one storage call of either publish fails (any real call): the failing call has no effect, the other
    // takes effect as a whole
    let mut faulty = vec![];
    for c in out.iter().filter(|c| matches!(c.name, "disjoint_inserts" | "same_label_updates" | "mixed_batches") && c.sc.actors.len() == 2 && c.sc.writer_cache == CacheCfg::None) {
        let mut sc = c.sc.clone();
        sc.faults = 1;
        sc.faultable = real_call;
        sc.gate_vrf = false;
        faulty.push(ScCase {
            name: match c.name {
                "disjoint_inserts" => "disjoint_inserts_one_fault",
                "same_label_updates" => "same_label_updates_one_fault",
                _ => "mixed_batches_one_fault",
            },
            sc,
        });
    }
    out.extend(faulty);
    // response-delivery gates (I/O completion order) on two representative scenarios
    let mut extra = vec![];
    for c in out.iter().filter(|c| matches!(c.name, "disjoint_inserts" | "same_label_updates") && c.sc.actors.len() == 2) {
        let mut sc = c.sc.clone();
        sc.post_gates = true;
        sc.gate_vrf = false;
        extra.push(ScCase { name: if c.name == "disjoint_inserts" { "disjoint_inserts_response_gates" } else { "same_label_updates_response_gates" }, sc });
    }
    out.extend(extra);
    out
}

fn judge<TC: ModelCfg>(rep: &Report, case: &ScCase, out: &RunOut, ch: &Chooser) {
    let sc = &case.sc;
    let nact = sc.actors.len();
    let ident = |kind: &str| format!("{}/{}/{}publishers/{:?}/{}", TC::NAME, case.name, nact, sc.writer_cache, kind);
    let detail = |extra: serde_json::Value| {
        json!({"scenario": sc.describe(), "choices": ch.choices(), "preemptions": ch.cost(), "schedule": show_steps(out), "observed": extra})
    };
    if out.horizon {
        rep.violation(ident("deadlock_or_horizon"), detail(json!({})));
        return;
    }
    let mut m0 = DirModel::default();
    for b in &sc.initial {
        m0.publish(b);
    }
    let mut calls: Vec<(Batch, Option<EpochHash>)> = vec![];
    let mut shown = vec![];
    for (ai, a) in sc.actors.iter().enumerate() {
        if let (Op::Publish(b), Some((OpResult::Publish(r), _, _))) = (&a.ops[0], out.results[ai].first()) {
            shown.push(match r {
                Ok(eh) => format!("{}: Ok(epoch {}, {})", a.name, eh.0, hex::encode(&eh.1[..6])),
                Err(e) => format!("{}: Err({})", a.name, format!("{e:?}").chars().take(80).collect::<String>()),
            });
            calls.push((b.clone(), r.as_ref().ok().cloned()));
        }
    }
    let outcome_fp = shown.join(" | ");
    rep.distinct(format!("{}:{}:{:?}:{}", TC::NAME, case.name, sc.writer_cache, outcome_fp.replace(|c: char| c.is_ascii_hexdigit() && !c.is_ascii_digit(), "")));
    let lin = linearize::<TC>(&m0, &calls);
    let rt = crate::gate::plain_runtime();
    rt.block_on(async {
        match lin {
            None => {
                // classify: same epoch returned twice with different hashes?
                let oks: Vec<&EpochHash> = calls.iter().filter_map(|c| c.1.as_ref()).collect();
                let dup = oks.iter().enumerate().any(|(i, a)| oks.iter().skip(i + 1).any(|b| a.0 == b.0 && a.1 != b.1));
                rep.violation(
                    ident(if dup { "two_publishes_same_epoch_different_hash" } else { "returned_pairs_not_serializable" }),
                    detail(json!({"results": shown})),
                );
            }
            Some((mfinal, order)) => {
                let published: Vec<D32> = (0..=mfinal.epoch).map(|e| model_root::<TC>(&mfinal.as_of(e)).0).collect();
                if out.writer_mgr.is_transaction_active() {
                    rep.violation(ident("transaction_left_open"), detail(json!({"results": shown})));
                }
                // the writer's own (possibly cached) view and a fresh instance over storage
                let same = akd::directory::Directory::<TC, _, _>::new(out.writer_mgr.clone(), out.vrf.clone(), AzksParallelismConfig::disabled()).await.unwrap();
                for b in reader_suite::<TC, _>(&same, &mfinal, &published, &[], false).await {
                    rep.violation(ident(&format!("final_state_same_manager/{}", b.kind)), detail(json!({"results": shown, "serial_order": order, "detail": b.detail})));
                }
                let fresh = new_dir::<TC>(&out.db, &out.vrf, CacheCfg::None, AzksParallelismConfig::disabled()).await;
                for b in reader_suite::<TC, _>(&fresh, &mfinal, &published, &[], false).await {
                    rep.violation(ident(&format!("final_state_fresh_instance/{}", b.kind)), detail(json!({"results": shown, "serial_order": order, "detail": b.detail})));
                }
                // a further publish still works and lands on the next epoch
                let al = alphabet::<TC>();
                let extra: Batch = vec![(al.labels[2].clone(), b"after".to_vec())];
                let mut m2 = mfinal.clone();
                m2.publish(&extra);
                match same.publish(to_akd_batch(&extra)).await {
                    Ok(eh) if eh.0 == m2.epoch && eh.1 == model_root::<TC>(&m2).0 => {}
                    other => rep.violation(ident("later_publish_wrong"), detail(json!({"results": shown, "later": format!("{other:?}")}))),
                }
            }
        }
    });
    rep.sample_cap(json!({"cfg": TC::NAME, "scenario": case.name, "outcome": shown, "preemptions": ch.cost(), "schedule_len": out.steps.len()}), 8);
}

fn run_cfg<TC: ModelCfg>(args: &Args, rep: &Report) {
    let quick = args.quick();
    let mut plans: Vec<(ScCase, u32)> = vec![];
    for c in scenarios::<TC>(quick, false) {
        plans.push((c, if quick { 2 } else { 3 }));
    }
    if !quick {
        for c in scenarios::<TC>(true, true).into_iter().filter(|c| matches!(c.name, "disjoint_inserts" | "same_label_updates" | "update_vs_insert")) {
            plans.push((c, 2));
        }
    } else {
        for c in scenarios::<TC>(true, true).into_iter().filter(|c| c.name == "disjoint_inserts" && c.sc.writer_cache == CacheCfg::None) {
            plans.push((c, 1));
        }
    }
    for (case, bound) in plans {
        let cap = if quick { 60_000 } else { 3_000_000 };
        // determinism self-check: the default schedule twice, identical traces
        let mut c1 = Chooser::default_run();
        let o1 = run_scenario::<TC>(&case.sc, &mut c1);
        let mut c2 = Chooser::default_run();
        let o2 = run_scenario::<TC>(&case.sc, &mut c2);
        if show_steps(&o1) != show_steps(&o2) || c1.choices() != c2.choices() {
            eprintln!("MACHINERY ERROR: scenario {} is not deterministic under the default schedule", case.name);
            std::process::exit(2);
        }
        let stats = explore(args.threads, bound, cap, |ch| {
            let out = run_scenario::<TC>(&case.sc, ch);
            rep.eval(1);
            rep.states(out.steps.len() as u64, out.steps.len() as u64);
            rep.traces(1);
            judge::<TC>(rep, &case, &out, ch);
        });
        rep.count(&format!("{}:{}:{}p:{:?}:bound{}:executions", TC::NAME, case.name, case.sc.actors.len(), case.sc.writer_cache, bound), stats.executions);
        rep.count("max_choice_points_in_one_execution", 0);
        if stats.capped {
            rep.cap_hit(format!("{} {} execution cap {} hit at preemption bound {}", TC::NAME, case.name, cap, bound));
        }
    }
}

/// Supplementary, SAMPLED (not exhaustive): the same publishes as real concurrent tasks on a multi-thread
/// runtime over the plain in-memory database (no gates), judged by the same serial-order oracle.
fn free_running_multithread<TC: ModelCfg>(rep: &Report, reps: usize) {
    use crate::gate::{GateDb, GateVrf};
    let rt = tokio::runtime::Builder::new_multi_thread().worker_threads(8).enable_time().build().unwrap();
    let al = alphabet::<TC>();
    let (a, b, c) = (al.labels[0].clone(), al.labels[1].clone(), al.labels[2].clone());
    let batches: Vec<Batch> = vec![
        vec![(a.clone(), b"y".to_vec()), (b.clone(), b"x".to_vec())],
        vec![(a.clone(), b"z".to_vec()), (c.clone(), b"x".to_vec())],
        vec![(b.clone(), b"y".to_vec())],
    ];
    let mut outcomes = std::collections::BTreeSet::new();
    for _ in 0..reps {
        rep.eval(1);
        let (results, db, vrf) = rt.block_on(async {
            let db = GateDb::new();
            let vrf = GateVrf::new();
            let dir = new_dir::<TC>(&db, &vrf, CacheCfg::Default, AzksParallelismConfig::default()).await;
            dir.publish(to_akd_batch(&vec![(a.clone(), b"x".to_vec())])).await.unwrap();
            let mut hs = vec![];
            for bt in batches.iter().cloned() {
                let d = dir.clone();
                hs.push(tokio::spawn(async move { d.publish(to_akd_batch(&bt)).await }));
            }
            let mut results = vec![];
            for h in hs {
                results.push(h.await.expect("publish task"));
            }
            (results, db, vrf)
        });
        let mut m0 = DirModel::default();
        m0.publish(&vec![(a.clone(), b"x".to_vec())]);
        let calls: Vec<(Batch, Option<EpochHash>)> = batches.iter().cloned().zip(results.iter().map(|r| r.as_ref().ok().cloned())).collect();
        let shown: Vec<String> = results.iter().map(|r| match r { Ok(eh) => format!("Ok({})", eh.0), Err(_) => "Err".into() }).collect();
        outcomes.insert(shown.join(","));
        match linearize::<TC>(&m0, &calls) {
            None => rep.violation(format!("{}/multithread_free_run/returned_pairs_not_serializable", TC::NAME), json!({"results": shown})),
            Some((mfinal, _)) => {
                let published: Vec<D32> = (0..=mfinal.epoch).map(|e| model_root::<TC>(&mfinal.as_of(e)).0).collect();
                let bads = crate::gate::plain_runtime().block_on(async {
                    let fresh = new_dir::<TC>(&db, &vrf, CacheCfg::None, AzksParallelismConfig::disabled()).await;
                    reader_suite::<TC, _>(&fresh, &mfinal, &published, &[], false).await
                });
                for bd in bads {
                    rep.violation(format!("{}/multithread_free_run/final_state/{}", TC::NAME, bd.kind), json!({"results": shown, "detail": bd.detail}));
                }
            }
        }
    }
    rep.count(&format!("{}:multithread_free_run:distinct_outcomes", TC::NAME), outcomes.len() as u64);
}

pub fn run(args: &Args) -> i32 {
    let rep = Report::new("C12", &args.tier, "model_checking");
    run_cfg::<W>(args, &rep);
    if !args.quick() {
        run_cfg::<E>(args, &rep);
    }
    free_running_multithread::<W>(&rep, if args.quick() { 20 } else { 300 });
    rep.finish(
        "one evaluation = one complete schedule (real Directory::publish tasks on clones of one directory; scheduling points = every Database call and VRF key fetch; all schedules with <= 2 preemptions quick / <= 3 thorough, 3 publishers <= 1 / <= 2). states/transitions = scheduler steps executed over all schedules (every schedule is executed on the implementation, hence traces_validated = executions). Oracle: some serial order of the successful calls explains every returned (epoch, hash); final state (same manager and fresh instance) equals that serial order; later publish lands on the next epoch. distinct = distinct (scenario, outcome) combinations. Supplementary and SAMPLED, not part of the exhaustive claim: 20 (thorough 300) free-running executions of three concurrent publishes on an 8-thread runtime with the default parallelism and cache, same oracle",
        &["interleavings finer than storage-operation granularity are not explored (code between two awaits on the environment runs atomically on the single runtime thread)", "tokio 1.53 current-thread on_thread_park semantics", "blake3 collision resistance"],
    )
}

/// re-execute one recorded schedule (identity = cfg/case/Npublishers/cache/kind) twice and re-judge it
pub fn replay(args: &Args, identity: &str, choices: Vec<u32>) -> i32 {
    let parts: Vec<&str> = identity.split('/').collect();
    if parts.len() < 5 {
        eprintln!("unrecognised identity {identity}");
        return 2;
    }
    fn go<TC: ModelCfg>(args: &Args, parts: &[&str], choices: Vec<u32>) -> i32 {
        let three = parts[2].starts_with('3');
        let mut all = scenarios::<TC>(false, three);
        all.extend(scenarios::<TC>(true, three));
        let Some(case) = all.into_iter().find(|c| c.name == parts[1] && format!("{:?}", c.sc.writer_cache) == parts[3] && c.sc.actors.len() == if three { 3 } else { 2 }) else {
            eprintln!("scenario {} not found", parts[1]);
            return 2;
        };
        let rep = Report::new("C12", &args.tier, "model_checking");
        let mut traces = vec![];
        for _ in 0..2 {
            let mut ch = Chooser::new(choices.clone(), None);
            let out = run_scenario::<TC>(&case.sc, &mut ch);
            if let Some(d) = &ch.diverged {
                eprintln!("MACHINERY ERROR: replay diverged: {d}");
                return 2;
            }
            traces.push(show_steps(&out));
            rep.eval(1);
            rep.states(out.steps.len() as u64, out.steps.len() as u64);
            rep.traces(1);
            judge::<TC>(&rep, &case, &out, &ch);
        }
        if traces[0] != traces[1] {
            eprintln!("MACHINERY ERROR: the same schedule produced two different traces");
            return 2;
        }
        println!("replayed schedule ({} steps):\n{}", traces[0].len(), traces[0].join("\n"));
        let n = rep.violation_count();
        println!("verdict: {}", if n > 0 { "violation reproduced" } else { "no violation on this tree" });
        if n > 0 {
            1
        } else {
            0
        }
    }
    if parts[0] == "experimental" {
        go::<E>(args, &parts, choices)
    } else {
        go::<W>(args, &parts, choices)
    }
}
