//! The common history alphabet H(L,V,d), the extended alphabet and the chain family, run under
//! both hashing configurations.

use crate::common::*;
use crate::model::ModelCfg;
use akd::append_only_zks::AzksParallelismConfig;

pub type W = akd::WhatsAppV1Configuration;
pub type E = akd::ExperimentalConfiguration<akd::ExampleLabel>;

pub struct Plan {
    /// depth of the walk over the 27-batch base alphabet (0 = skip)
    pub base_depth: usize,
    /// depth of the walk over the extended alphabet (empty / long labels and values, repeated labels)
    pub ext_depth: usize,
    /// depth of the walks over the two tree-shape alphabets (16 batches each; 0 = skip)
    pub shape_depth: usize,
    /// chain families (length, deviation bound)
    pub chains: Vec<(usize, usize)>,
    pub cache: CacheCfg,
    pub par: AzksParallelismConfig,
}

pub fn base_alphabet<TC: ModelCfg>() -> Vec<Batch> {
    let a = alphabet::<TC>();
    batches(&a.labels, &[b"x".to_vec(), b"y".to_vec()])
}

pub fn long_label() -> Vec<u8> {
    (0..300u32).map(|i| (i % 251) as u8).collect()
}
pub fn long_value() -> Vec<u8> {
    (0..1024u32).map(|i| (i % 253) as u8).collect()
}

/// extended alphabet: the empty label, a 300-byte label, the empty value (= akd's TOMBSTONE
/// constant), a 1 KiB value, and batches that repeat a label
pub fn ext_alphabet<TC: ModelCfg>() -> Vec<Batch> {
    let al = alphabet::<TC>();
    let a = al.labels[0].clone();
    let b = al.labels[1].clone();
    let e: Vec<u8> = vec![];
    let ll = long_label();
    let lv = long_value();
    let x = b"x".to_vec();
    let y = b"y".to_vec();
    vec![
        vec![(a.clone(), x.clone())],
        vec![(a.clone(), y.clone())],
        vec![(e.clone(), x.clone())],
        vec![(e.clone(), e.clone())],
        vec![(ll.clone(), x.clone())],
        vec![(ll.clone(), lv.clone())],
        vec![(a.clone(), e.clone())],
        vec![(a.clone(), lv.clone())],
        vec![(a.clone(), x.clone()), (e.clone(), y.clone()), (ll.clone(), e.clone())],
        // repeated label: must be rejected without effect
        vec![(a.clone(), x.clone()), (a.clone(), y.clone())],
        vec![(a.clone(), x.clone()), (b.clone(), y.clone()), (a.clone(), x.clone())],
    ]
}

pub fn run_plan_cfg<TC: ModelCfg, V: HistVisitor<TC>>(threads: usize, plan: &Plan, v: &V) {
    if plan.base_depth > 0 {
        let cfg = WalkCfg { alphabet: base_alphabet::<TC>(), depth: plan.base_depth, cache: plan.cache, par: plan.par, threads };
        walk::<TC, V>(&cfg, v);
    }
    if plan.ext_depth > 0 {
        let cfg = WalkCfg { alphabet: ext_alphabet::<TC>(), depth: plan.ext_depth, cache: plan.cache, par: plan.par, threads };
        walk::<TC, V>(&cfg, v);
    }
    if plan.shape_depth > 0 {
        for orient in 0..2 {
            let cfg = WalkCfg { alphabet: shape_batches::<TC>(orient), depth: plan.shape_depth, cache: plan.cache, par: plan.par, threads };
            walk::<TC, V>(&cfg, v);
        }
    }
    for &(n, k) in &plan.chains {
        let al = alphabet::<TC>();
        let hs = chain_histories(&al.labels[0], &al.labels[1], n, k);
        let cfg = WalkCfg { alphabet: vec![], depth: 0, cache: plan.cache, par: plan.par, threads };
        walk_histories::<TC, V>(&cfg, &hs, v);
    }
}

pub fn run_plan<V: HistVisitor<W> + HistVisitor<E>>(threads: usize, plan: &Plan, v: &V) {
    run_plan_cfg::<W, V>(threads, plan, v);
    run_plan_cfg::<E, V>(threads, plan, v);
}

pub fn plan_note(plan: &Plan) -> String {
    format!(
        "H(L={{a,b,c}},V={{x,y}},d={}) over 27 batches; extended alphabet (empty/300B label, empty/1KiB value, repeated labels) depth {}; two tree-shape alphabets (16 batches over 4 labels forcing decompression with insertion below the pushed-down node, both orientations) depth {}; chains (n,k)={:?}; both configurations; labels: {} / {}",
        plan.base_depth,
        plan.ext_depth,
        plan.shape_depth,
        plan.chains,
        alphabet::<W>().note,
        alphabet::<E>().note
    )
}
