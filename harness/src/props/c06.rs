//! C06 — a verifying lookup proof can only report the label's latest version.
//!
//! The dishonest server holds the key and the (honest) tree: every candidate is assembled from
//! real material only — real VRF proofs for any (label, freshness, version), real membership
//! proofs for any node, the honest generators' outputs, forged absences anchored at every real
//! ancestor, and fields swapped in from other proofs / earlier epochs.
//! Oracle: lookup_verify accepts  =>  result == DirModel's latest triple.

use super::c05::{anchors, elem};
use super::hist::*;
use crate::common::*;
use crate::gate::{GateDb, GateVrf};
use crate::model::*;
use crate::oracles::*;
use crate::report::Report;
use crate::Args;
use akd::append_only_zks::{Azks, AzksParallelismConfig};
use akd::ecvrf::VRFKeyStorage;
use akd::storage::types::DbRecord;
use akd::storage::StorageManager;
use akd::{AkdLabel, AkdValue, AzksElement, EpochHash, LookupProof, NodeLabel, NonMembershipProof, VersionFreshness};
use serde_json::json;
use std::future::Future;
use std::pin::Pin;

pub struct Server<TC: ModelCfg> {
    pub mgr: StorageManager<GateDb>,
    pub azks: Azks,
    pub vrf: GateVrf,
    pub tree: MTree,
    pub _tc: std::marker::PhantomData<TC>,
}

pub async fn server<TC: ModelCfg>(db: &GateDb, vrf: &GateVrf, model: &DirModel) -> Server<TC> {
    let mgr = manager(db, CacheCfg::None);
    let azks = match mgr.get::<Azks>(&akd::append_only_zks::DEFAULT_AZKS_KEY).await {
        Ok(DbRecord::Azks(a)) => a,
        other => panic!("no azks record: {other:?}"),
    };
    let tree = trie::<TC>(&model_leaves::<TC>(model));
    Server { mgr, azks, vrf: vrf.clone(), tree, _tc: Default::default() }
}

impl<TC: ModelCfg> Server<TC> {
    pub async fn vrf_proof(&self, label: &[u8], fresh: bool, version: u64) -> Vec<u8> {
        self.vrf
            .get_label_proof::<TC>(&AkdLabel(label.to_vec()), if fresh { VersionFreshness::Fresh } else { VersionFreshness::Stale }, version)
            .await
            .unwrap()
            .to_bytes()
            .to_vec()
    }
    pub async fn member(&self, nl: NodeLabel) -> akd::MembershipProof {
        self.azks.get_membership_proof::<TC, _>(&self.mgr, nl).await.unwrap()
    }
    /// forged existence of ANY label: no sibling layers, carrying the root node's own value
    pub fn forged_member_root(&self, nl: NodeLabel) -> akd::MembershipProof {
        akd::MembershipProof { label: nl, hash_val: akd::AzksValue(self.tree.root_value), sibling_proofs: vec![] }
    }
    pub async fn non_member(&self, nl: NodeLabel) -> NonMembershipProof {
        self.azks.get_non_membership_proof::<TC, _>(&self.mgr, nl).await.unwrap()
    }
    pub fn nonce(&self, label: &[u8], version: u64, value: &[u8]) -> Vec<u8> {
        let ck = TC::hash(&test_key());
        let nl = node_label::<TC>(label, true, version);
        TC::get_commitment_nonce(&ck, &nl, version, &AkdValue(value.to_vec())).to_vec()
    }
    /// forged absences of `q` anchored at real interior nodes that are NOT on q's path
    pub async fn forged_absences_off_path(&self, q: NodeLabel) -> Vec<NonMembershipProof> {
        let qb = nl_bits(&q);
        let empty = AzksElement { label: TC::empty_label(), value: TC::empty_node_hash() };
        let mut out = vec![];
        for (alabel, l, r, on_path) in super::c05::all_anchors(&self.tree, &qb) {
            if on_path {
                continue;
            }
            let an = bits_nl(&alabel);
            let mp = self.member(an).await;
            if mp.label != an {
                continue;
            }
            out.push(NonMembershipProof {
                label: q,
                longest_prefix: an,
                longest_prefix_children: [l.map(elem).unwrap_or(empty), r.map(elem).unwrap_or(empty)],
                longest_prefix_membership_proof: mp,
            });
        }
        out
    }

    /// forged absences of `q` in which the queried label keeps its value but claims a SHORTER length (the
    /// length of the anchor, or one more), anchored at each real ancestor with its real children
    pub async fn forged_absences_truncated_label(&self, q: NodeLabel) -> Vec<(String, NonMembershipProof)> {
        let mut out = vec![];
        for (depth, f) in self.forged_absences(q).await {
            let alen = f.longest_prefix.label_len;
            for newlen in [alen, alen + 1, 255u32, 0] {
                if newlen >= 256 {
                    continue;
                }
                let mut g = f.clone();
                g.label = NodeLabel::new(q.label_val, newlen);
                out.push((format!("anchor_depth_{depth}_label_len_{}", if newlen == alen { "of_anchor".to_string() } else if newlen == alen + 1 { "of_anchor_plus_1".to_string() } else { newlen.to_string() }), g.clone()));
                // the same with the canonical (zero-padded) value of the shortened label
                g.label = NodeLabel::new(q.label_val, 256).get_prefix(newlen);
                out.push((format!("anchor_depth_{depth}_label_prefix_{}", newlen), g));
            }
        }
        out
    }

    /// every forged absence of `q`: each real ancestor as claimed longest prefix with its real children
    pub async fn forged_absences(&self, q: NodeLabel) -> Vec<(usize, NonMembershipProof)> {
        let qb = nl_bits(&q);
        let empty = AzksElement { label: TC::empty_label(), value: TC::empty_node_hash() };
        let mut out = vec![];
        for (depth, (alabel, l, r)) in anchors(&self.tree, &qb).iter().enumerate() {
            let an = bits_nl(alabel);
            let mp = self.member(an).await;
            if mp.label != an {
                continue;
            }
            out.push((
                depth,
                NonMembershipProof {
                    label: q,
                    longest_prefix: an,
                    longest_prefix_children: [l.map(elem).unwrap_or(empty), r.map(elem).unwrap_or(empty)],
                    longest_prefix_membership_proof: mp,
                },
            ));
        }
        out
    }
    /// the proof a server would assemble to claim that `version` (with the given value/epoch) is current
    pub async fn lookup_claim(&self, label: &[u8], version: u64, value: &[u8], epoch: u64, freshness: NonMembershipProof) -> LookupProof {
        let marker = 1u64 << (63 - version.leading_zeros());
        LookupProof {
            epoch,
            value: AkdValue(value.to_vec()),
            version,
            existence_vrf_proof: self.vrf_proof(label, true, version).await,
            existence_proof: self.member(node_label::<TC>(label, true, version)).await,
            marker_vrf_proof: self.vrf_proof(label, true, marker).await,
            marker_proof: self.member(node_label::<TC>(label, true, marker)).await,
            freshness_vrf_proof: self.vrf_proof(label, false, version).await,
            freshness_proof: freshness,
            commitment_nonce: self.nonce(label, version, value),
        }
    }
}

struct V6<'r> {
    rep: &'r Report,
}

fn judge<TC: ModelCfg>(rep: &Report, what: &str, label: &[u8], cand: LookupProof, eh: &EpochHash, truth: &VR, hist: &dyn Fn() -> String, extra: serde_json::Value) {
    rep.eval(1);
    if let Ok(vr) = verify_lookup::<TC>(label, cand, eh) {
        if &vr != truth {
            rep.violation(
                format!("{}/lookup_accepts_non_latest/{}", TC::NAME, what),
                json!({"history": hist(), "label": show_bytes(label), "epoch": eh.0, "accepted": show_vr(&vr), "truth": show_vr(truth), "candidate": extra}),
            );
        } else {
            rep.count("altered_but_true_accepted", 1);
        }
    } else {
        rep.count("rejected", 1);
    }
}

/// replay a history prefix from scratch
pub async fn replay_prefix<TC: ModelCfg>(hist: &[Batch]) -> (GateDb, DirModel) {
    let db = GateDb::new();
    let vrf = GateVrf::new();
    let dir = new_dir::<TC>(&db, &vrf, CacheCfg::None, AzksParallelismConfig::disabled()).await;
    let mut m = DirModel::default();
    for b in hist {
        let _ = dir.publish(to_akd_batch(b)).await;
        m.publish(b);
    }
    (db, m)
}

impl<'r, TC: ModelCfg> HistVisitor<TC> for V6<'r> {
    fn visit<'a>(&'a self, ctx: &'a HistCtx<TC>) -> Pin<Box<dyn Future<Output = ()> + 'a>> {
        Box::pin(async move {
            if !matches!(ctx.last, Some(MPublish::NewEpoch(_))) {
                return;
            }
            let hist = || show_history(&ctx.history);
            let srv = server::<TC>(&ctx.db, &ctx.vrf, &ctx.model).await;
            let cur = ctx.model.epoch;
            let eh = EpochHash(cur, ctx.published[cur as usize]);
            let dir = new_dir::<TC>(&ctx.db, &ctx.vrf, CacheCfg::None, AzksParallelismConfig::disabled()).await;
            // honest proofs of every label at this epoch (pool for swaps)
            let mut honest: Vec<(Vec<u8>, LookupProof)> = vec![];
            for l in ctx.model.users.keys() {
                if let Ok((p, e)) = dir.lookup(AkdLabel(l.clone())).await {
                    if e == eh {
                        honest.push((l.clone(), p));
                    }
                }
            }
            // honest proofs of every label at each earlier epoch (material from another epoch's tree)
            let mut older: Vec<(u64, Vec<u8>, LookupProof)> = vec![];
            let mut seen_epoch = 0;
            for k in 1..ctx.history.len() {
                let (db_k, m_k) = replay_prefix::<TC>(&ctx.history[..k]).await;
                if m_k.epoch == seen_epoch || m_k.epoch == cur {
                    continue;
                }
                seen_epoch = m_k.epoch;
                let d = new_dir::<TC>(&db_k, &ctx.vrf, CacheCfg::None, AzksParallelismConfig::disabled()).await;
                for l in m_k.users.keys() {
                    if let Ok((p, _)) = d.lookup(AkdLabel(l.clone())).await {
                        older.push((m_k.epoch, l.clone(), p));
                    }
                }
            }
            for (label, versions) in ctx.model.users.iter() {
                let n = versions.len() as u64;
                let truth = ctx.model.latest(label).unwrap();
                let nonlatest = n >= 2;
                // --- every claimed version 1..=n+1
                for v in 1..=n + 1 {
                    let (val, ep) = if v <= n { versions[v as usize - 1].clone() } else { (b"forged".to_vec(), cur) };
                    let stale_v = node_label::<TC>(label, false, v);
                    // freshness proof: the honest generator's output, and every ancestor as anchor
                    let mut fresh_opts: Vec<(String, NonMembershipProof)> = vec![("generator".into(), srv.non_member(stale_v).await)];
                    for (d, f) in srv.forged_absences(stale_v).await {
                        fresh_opts.push((format!("anchor_depth_{d}"), f));
                    }
                    if v < n {
                        for (i, f) in srv.forged_absences_off_path(stale_v).await.into_iter().enumerate() {
                            fresh_opts.push((format!("off_path_anchor_{i}"), f));
                        }
                        for (name, f) in srv.forged_absences_truncated_label(stale_v).await {
                            fresh_opts.push((name, f));
                        }
                    }
                    for (fname, f) in fresh_opts {
                        let cand = srv.lookup_claim(label, v, &val, ep, f).await;
                        let what = if v < n { "superseded_version" } else if v == n { "latest_version" } else { "future_version" };
                        judge::<TC>(self.rep, what, label, cand.clone(), &eh, &truth, &hist, json!({"claimed_version": v, "freshness": fname}));
                        if v <= n {
                            // value / epoch / nonce alterations on top of the claim
                            for (other_val, other_ep) in versions.iter() {
                                if (other_val, other_ep) != (&val, &ep) {
                                    let mut c = cand.clone();
                                    c.value = AkdValue(other_val.clone());
                                    judge::<TC>(self.rep, "value_substituted", label, c, &eh, &truth, &hist, json!({"claimed_version": v, "freshness": fname}));
                                    let mut c = cand.clone();
                                    c.epoch = *other_ep;
                                    judge::<TC>(self.rep, "epoch_substituted", label, c, &eh, &truth, &hist, json!({"claimed_version": v, "freshness": fname}));
                                    let mut c = cand.clone();
                                    c.value = AkdValue(other_val.clone());
                                    c.commitment_nonce = srv.nonce(label, v, other_val);
                                    judge::<TC>(self.rep, "value_and_nonce_substituted", label, c, &eh, &truth, &hist, json!({"claimed_version": v, "freshness": fname}));
                                }
                            }
                            for de in [ep.wrapping_sub(1), ep + 1, cur + 1] {
                                let mut c = cand.clone();
                                c.epoch = de;
                                judge::<TC>(self.rep, "epoch_shifted", label, c, &eh, &truth, &hist, json!({"claimed_version": v, "epoch": de}));
                            }
                            // values that never were this label's: the distinguished empty value (akd's TOMBSTONE), the other
                            // alphabet values, a long one — alone, with the matching nonce, with an empty nonce, with another epoch
                            for cv in [vec![], b"x".to_vec(), b"y".to_vec(), b"forged".to_vec(), long_value()] {
                                if cv == val {
                                    continue;
                                }
                                let name = if cv.is_empty() { "empty_value" } else { "foreign_value" };
                                let mut c = cand.clone();
                                c.value = AkdValue(cv.clone());
                                judge::<TC>(self.rep, &format!("value_replaced/{name}"), label, c.clone(), &eh, &truth, &hist, json!({"claimed_version": v, "freshness": fname}));
                                let mut c2 = c.clone();
                                c2.commitment_nonce = srv.nonce(label, v, &cv);
                                judge::<TC>(self.rep, &format!("value_replaced/{name}+nonce"), label, c2, &eh, &truth, &hist, json!({"claimed_version": v, "freshness": fname}));
                                let mut c3 = c.clone();
                                c3.commitment_nonce = vec![];
                                judge::<TC>(self.rep, &format!("value_replaced/{name}+empty_nonce"), label, c3, &eh, &truth, &hist, json!({"claimed_version": v, "freshness": fname}));
                                let mut c4 = c.clone();
                                c4.epoch = if ep > 1 { ep - 1 } else { ep + 1 };
                                judge::<TC>(self.rep, &format!("value_replaced/{name}+epoch"), label, c4, &eh, &truth, &hist, json!({"claimed_version": v, "freshness": fname}));
                            }
                        }
                    }
                }
                if nonlatest {
                    self.rep.distinct(format!("{}:{}:n{}@{}", TC::NAME, show_bytes(label), n, cur));
                }
                // --- single-field swaps of the honest proof with another label's honest proof
                if let Some((_, mine)) = honest.iter().find(|(l, _)| l == label) {
                    for (ol, other) in honest.iter().filter(|(l, _)| l != label) {
                        let swaps: Vec<(&str, LookupProof)> = vec![
                            ("existence_proof", LookupProof { existence_proof: other.existence_proof.clone(), ..mine.clone() }),
                            ("existence_vrf", LookupProof { existence_vrf_proof: other.existence_vrf_proof.clone(), ..mine.clone() }),
                            ("existence_pair", LookupProof { existence_proof: other.existence_proof.clone(), existence_vrf_proof: other.existence_vrf_proof.clone(), ..mine.clone() }),
                            ("marker_proof", LookupProof { marker_proof: other.marker_proof.clone(), ..mine.clone() }),
                            ("marker_pair", LookupProof { marker_proof: other.marker_proof.clone(), marker_vrf_proof: other.marker_vrf_proof.clone(), ..mine.clone() }),
                            ("freshness_proof", LookupProof { freshness_proof: other.freshness_proof.clone(), ..mine.clone() }),
                            ("freshness_pair", LookupProof { freshness_proof: other.freshness_proof.clone(), freshness_vrf_proof: other.freshness_vrf_proof.clone(), ..mine.clone() }),
                            ("value", LookupProof { value: other.value.clone(), ..mine.clone() }),
                            ("value_nonce", LookupProof { value: other.value.clone(), commitment_nonce: other.commitment_nonce.clone(), ..mine.clone() }),
                            ("version", LookupProof { version: other.version + 1, ..mine.clone() }),
                            ("other_leaf_value_nonce_epoch_with_own_vrf", LookupProof {
                                existence_proof: other.existence_proof.clone(), value: other.value.clone(), epoch: other.epoch,
                                commitment_nonce: other.commitment_nonce.clone(), ..mine.clone() }),
                            ("other_leaf_all_proofs_with_own_vrfs", LookupProof {
                                existence_proof: other.existence_proof.clone(), marker_proof: other.marker_proof.clone(), freshness_proof: other.freshness_proof.clone(),
                                value: other.value.clone(), epoch: other.epoch, version: other.version, commitment_nonce: other.commitment_nonce.clone(), ..mine.clone() }),
                            ("whole_proof", other.clone()),
                        ];
                        for (name, c) in swaps {
                            judge::<TC>(self.rep, &format!("swapped_with_other_label/{name}"), label, c, &eh, &truth, &hist, json!({"other": show_bytes(ol)}));
                        }
                    }
                    // --- the same label's proof from each earlier epoch, whole and field by field
                    for (oe, ol, other) in older.iter().filter(|(_, l, _)| l == label) {
                        let _ = ol;
                        let swaps: Vec<(&str, LookupProof)> = vec![
                            ("whole_proof", other.clone()),
                            ("existence_pair+value", LookupProof {
                                existence_proof: other.existence_proof.clone(), existence_vrf_proof: other.existence_vrf_proof.clone(),
                                value: other.value.clone(), epoch: other.epoch, version: other.version, commitment_nonce: other.commitment_nonce.clone(), ..mine.clone() }),
                            ("freshness_pair", LookupProof { freshness_proof: other.freshness_proof.clone(), freshness_vrf_proof: other.freshness_vrf_proof.clone(), ..mine.clone() }),
                            ("marker_pair", LookupProof { marker_proof: other.marker_proof.clone(), marker_vrf_proof: other.marker_vrf_proof.clone(), ..mine.clone() }),
                            ("all_but_freshness", LookupProof { freshness_proof: mine.freshness_proof.clone(), freshness_vrf_proof: mine.freshness_vrf_proof.clone(), ..other.clone() }),
                        ];
                        for (name, c) in swaps {
                            judge::<TC>(self.rep, &format!("material_from_earlier_epoch/{name}"), label, c, &eh, &truth, &hist, json!({"from_epoch": oe}));
                        }
                    }
                }
            }
            if ctx.history.len() >= 2 {
                self.rep.sample(json!({"cfg": TC::NAME, "history": hist(), "epoch": cur, "labels": ctx.model.users.iter().map(|(l, v)| json!([show_bytes(l), v.len()])).collect::<Vec<_>>()}));
            }
        })
    }
}

pub fn run(args: &Args) -> i32 {
    let rep = Report::new("C06", &args.tier, "exploration");
    let plan = if args.quick() {
        Plan { base_depth: 2, ext_depth: 0, chains: vec![(9, 1)], shape_depth: 1, cache: CacheCfg::None, par: AzksParallelismConfig::disabled() }
    } else {
        Plan { base_depth: 3, ext_depth: 2, chains: vec![(17, 1), (9, 2)], shape_depth: 2, cache: CacheCfg::None, par: AzksParallelismConfig::disabled() }
    };
    let v = V6 { rep: &rep };
    run_plan(args.threads, &plan, &v);
    rep.extra("plan", json!(plan_note(&plan)));
    rep.finish(
        "after every epoch of every history, for every label and every claimed version 1..n+1: a lookup proof assembled from real material (real VRF proofs, real membership proofs, the honest absence generator's output and a forged absence anchored at every real ancestor of the stale leaf), with value/epoch/nonce substitutions from other versions; plus single-field swaps of the honest proof with every other label's proof and with the same label's proof from every earlier epoch. One evaluation = one candidate through the real lookup_verify; oracle: accepted => result equals DirModel's latest triple. distinct = distinct (configuration, label, version count >= 2, epoch) situations where a superseded version exists",
        &["blake3 collision resistance", "VRF uniqueness", "hard-coded test VRF key", "dishonest prover restricted to material derivable from the real tree and key (menu in DESIGN.md §3.6)"],
    )
}
