//! Shared by C15/C16: the small storage universe, the boring StoreModel, the read suite and the
//! exact state fingerprint (through the verif_hooks snapshot accessors) used by E3.

use crate::common::*;
use crate::gate::{rec_key, short_key, GateDb};
use akd::append_only_zks::Azks;
use akd::storage::types::{DbRecord, ValueState, ValueStateKey, ValueStateRetrievalFlag};
use akd::storage::{Database, DbSetState, StorageManager};
use akd::tree_node::{NodeKey, TreeNode, TreeNodeType, TreeNodeWithPreviousValue};
use akd::{AkdLabel, AkdValue, AzksValue, NodeLabel};
use std::collections::BTreeMap;

pub const USERS: [&str; 2] = ["u1", "u2"];

pub fn azks_rec(e: u64) -> DbRecord {
    DbRecord::Azks(Azks { latest_epoch: e, num_nodes: e + 1 })
}

pub fn node_label_of(i: usize) -> NodeLabel {
    let mut v = [0u8; 32];
    v[0] = 0x40 * (i as u8 + 1);
    NodeLabel::new(v, 8)
}

pub fn node_rec(i: usize, c: u64) -> DbRecord {
    let mk = |e: u64| TreeNode {
        label: node_label_of(i),
        last_epoch: e,
        min_descendant_epoch: 1,
        parent: NodeLabel::root(),
        node_type: TreeNodeType::Leaf,
        left_child: None,
        right_child: None,
        hash: AzksValue([e as u8; 32]),
    };
    DbRecord::TreeNode(TreeNodeWithPreviousValue {
        label: node_label_of(i),
        latest_node: mk(c),
        previous_node: if c > 1 { Some(mk(c - 1)) } else { None },
    })
}

pub fn vs_rec(user: &str, epoch: u64, version: u64, tomb: bool) -> DbRecord {
    let mut lv = [0u8; 32];
    lv[0] = user.as_bytes()[1];
    lv[1] = version as u8;
    DbRecord::ValueState(ValueState {
        value: AkdValue(if tomb { vec![] } else { format!("{user}@{epoch}").into_bytes() }),
        version,
        label: NodeLabel::new(lv, 256),
        epoch,
        username: AkdLabel(user.as_bytes().to_vec()),
    })
}

/// StoreModel: committed records, pending records, transaction flag
#[derive(Clone, Default, Debug)]
pub struct StoreModel {
    pub committed: BTreeMap<Vec<u8>, DbRecord>,
    pub pending: BTreeMap<Vec<u8>, DbRecord>,
    pub active: bool,
}

impl StoreModel {
    /// what reads must see: committed overlaid with pending while a transaction is open
    pub fn view(&self) -> BTreeMap<Vec<u8>, DbRecord> {
        let mut v = self.committed.clone();
        if self.active {
            for (k, r) in &self.pending {
                v.insert(k.clone(), r.clone());
            }
        }
        v
    }
    pub fn user_states(view: &BTreeMap<Vec<u8>, DbRecord>, user: &str) -> Vec<ValueState> {
        let mut out: Vec<ValueState> = view
            .values()
            .filter_map(|r| match r {
                DbRecord::ValueState(v) if v.username.0 == user.as_bytes() => Some(v.clone()),
                _ => None,
            })
            .collect();
        out.sort_by_key(|v| v.epoch);
        out
    }
    pub fn write(&mut self, r: &DbRecord) {
        if self.active {
            self.pending.insert(rec_key(r), r.clone());
        } else {
            self.committed.insert(rec_key(r), r.clone());
        }
    }
    pub fn max_epoch(&self, user: &str) -> u64 {
        Self::user_states(&self.view(), user).last().map(|v| v.epoch).unwrap_or(0)
    }
    pub fn state_at(&self, user: &str, epoch: u64) -> Option<ValueState> {
        Self::user_states(&self.view(), user).into_iter().find(|v| v.epoch == epoch)
    }
}

pub fn flags() -> Vec<ValueStateRetrievalFlag> {
    let mut f = vec![ValueStateRetrievalFlag::MaxEpoch, ValueStateRetrievalFlag::MinEpoch];
    for e in 0..=4 {
        f.push(ValueStateRetrievalFlag::LeqEpoch(e));
    }
    for e in 1..=3 {
        f.push(ValueStateRetrievalFlag::SpecificEpoch(e));
    }
    for v in 1..=3 {
        f.push(ValueStateRetrievalFlag::SpecificVersion(v));
    }
    f
}

pub fn model_user_state(states: &[ValueState], flag: ValueStateRetrievalFlag) -> Option<ValueState> {
    match flag {
        ValueStateRetrievalFlag::MaxEpoch => states.last().cloned(),
        ValueStateRetrievalFlag::MinEpoch => states.first().cloned(),
        ValueStateRetrievalFlag::LeqEpoch(e) => states.iter().filter(|s| s.epoch <= e).last().cloned(),
        ValueStateRetrievalFlag::SpecificEpoch(e) => states.iter().find(|s| s.epoch == e).cloned(),
        ValueStateRetrievalFlag::SpecificVersion(v) => states.iter().find(|s| s.version == v).cloned(),
    }
}

fn show_vs(v: &ValueState) -> String {
    format!("{}@{}v{}={}", String::from_utf8_lossy(&v.username), v.epoch, v.version, if v.value.0.is_empty() { "TOMB".into() } else { String::from_utf8_lossy(&v.value).to_string() })
}

pub fn show_rec(r: &DbRecord) -> String {
    match r {
        DbRecord::Azks(a) => format!("azks(e{})", a.latest_epoch),
        DbRecord::TreeNode(n) => format!("{}(e{})", short_key(&rec_key(r)), n.latest_node.last_epoch),
        DbRecord::ValueState(v) => show_vs(v),
    }
}

/// all record keys of the universe
pub struct Keys {
    pub nodes: Vec<NodeKey>,
    pub values: Vec<ValueStateKey>,
}

pub fn keys(n_nodes: usize) -> Keys {
    let nodes = (0..n_nodes).map(|i| NodeKey(node_label_of(i))).collect();
    let mut values = vec![];
    for u in USERS.iter().chain(["u3"].iter()) {
        for e in 1..=3u64 {
            values.push(ValueStateKey(u.as_bytes().to_vec(), e));
        }
    }
    Keys { nodes, values }
}

/// The read suite through the manager: every answer rendered as a canonical string, paired with
/// the model's expected rendering computed from `view`.
pub async fn read_suite(mgr: &StorageManager<GateDb>, view: &BTreeMap<Vec<u8>, DbRecord>, n_nodes: usize, user_queries: bool) -> Vec<(String, String, String)> {
    use akd::storage::Storable;
    let mut out = vec![]; // (query, got, want)
    let ks = keys(n_nodes);
    let opt = |r: Result<DbRecord, akd::errors::StorageError>| match r {
        Ok(r) => show_rec(&r),
        Err(akd::errors::StorageError::NotFound(_)) => "-".to_string(),
        Err(e) => format!("ERR({e:?})"),
    };
    let want_key = |k: &[u8]| view.get(k).map(show_rec).unwrap_or("-".into());
    // single gets
    let az = Azks::get_full_binary_key_id(&akd::append_only_zks::DEFAULT_AZKS_KEY);
    out.push(("get(azks)".into(), opt(mgr.get::<Azks>(&akd::append_only_zks::DEFAULT_AZKS_KEY).await), want_key(&az)));
    for k in &ks.nodes {
        let bk = TreeNodeWithPreviousValue::get_full_binary_key_id(k);
        out.push((format!("get({})", short_key(&bk)), opt(mgr.get::<TreeNodeWithPreviousValue>(k).await), want_key(&bk)));
    }
    for k in &ks.values {
        let bk = ValueState::get_full_binary_key_id(k);
        out.push((format!("get({})", short_key(&bk)), opt(mgr.get::<ValueState>(k).await), want_key(&bk)));
    }
    // batched gets: every key subset of size <= 2 per type
    let render_list = |rs: Result<Vec<DbRecord>, akd::errors::StorageError>| match rs {
        Ok(rs) => {
            let mut v: Vec<String> = rs.iter().map(show_rec).collect();
            v.sort();
            v.join(",")
        }
        Err(e) => format!("ERR({e:?})"),
    };
    for i in 0..ks.nodes.len() {
        for j in i..ks.nodes.len() {
            let ids: Vec<NodeKey> = if i == j { vec![ks.nodes[i].clone()] } else { vec![ks.nodes[i].clone(), ks.nodes[j].clone()] };
            let mut want: Vec<String> = ids.iter().filter_map(|k| view.get(&TreeNodeWithPreviousValue::get_full_binary_key_id(k)).map(show_rec)).collect();
            want.sort();
            out.push((format!("batch_get(nodes {i},{j})"), render_list(mgr.batch_get::<TreeNodeWithPreviousValue>(&ids).await), want.join(",")));
        }
    }
    for i in 0..ks.values.len() {
        for j in i..ks.values.len() {
            if i != j && (i + j) % 3 != 0 {
                continue; // a third of the pairs (all singletons)
            }
            let ids: Vec<ValueStateKey> = if i == j { vec![ks.values[i].clone()] } else { vec![ks.values[i].clone(), ks.values[j].clone()] };
            let mut want: Vec<String> = ids.iter().filter_map(|k| view.get(&ValueState::get_full_binary_key_id(k)).map(show_rec)).collect();
            want.sort();
            out.push((format!("batch_get(values {i},{j})"), render_list(mgr.batch_get::<ValueState>(&ids).await), want.join(",")));
        }
    }
    if !user_queries {
        return out;
    }
    // user-state queries
    let all_users: Vec<&str> = vec!["u1", "u2", "u3"];
    for u in &all_users {
        let states = StoreModel::user_states(view, u);
        let label = AkdLabel(u.as_bytes().to_vec());
        for f in flags() {
            let got = match mgr.get_user_state(&label, f).await {
                Ok(v) => show_vs(&v),
                Err(akd::errors::StorageError::NotFound(_)) => "-".into(),
                Err(e) => format!("ERR({e:?})"),
            };
            let want = model_user_state(&states, f).map(|v| show_vs(&v)).unwrap_or("-".into());
            out.push((format!("get_user_state({u},{f:?})"), got, want));
        }
        let got = match mgr.get_user_data(&label).await {
            Ok(kd) => {
                let mut v: Vec<String> = kd.states.iter().map(show_vs).collect();
                v.sort();
                v.join(",")
            }
            Err(akd::errors::StorageError::NotFound(_)) => "".into(), // absent user == empty answer
            Err(e) => format!("ERR({e:?})"),
        };
        let mut want: Vec<String> = states.iter().map(show_vs).collect();
        want.sort();
        out.push((format!("get_user_data({u})"), got, want.join(",")));
    }
    // bulk versions: every non-empty user subset x every flag
    for mask in 1u32..8 {
        let us: Vec<&str> = (0..3).filter(|i| mask & (1 << i) != 0).map(|i| all_users[i]).collect();
        let labels: Vec<AkdLabel> = us.iter().map(|u| AkdLabel(u.as_bytes().to_vec())).collect();
        for f in flags() {
            let got = match mgr.get_user_state_versions(&labels, f).await {
                Ok(m) => {
                    let mut v: Vec<String> = m
                        .iter()
                        .map(|(l, (ver, val))| format!("{}:v{}={}", String::from_utf8_lossy(l), ver, if val.0.is_empty() { "TOMB".into() } else { String::from_utf8_lossy(val).to_string() }))
                        .collect();
                    v.sort();
                    v.join(",")
                }
                Err(e) => format!("ERR({e:?})"),
            };
            let mut want: Vec<String> = us
                .iter()
                .filter_map(|u| model_user_state(&StoreModel::user_states(view, u), f).map(|v| format!("{}:v{}={}", u, v.version, if v.value.0.is_empty() { "TOMB".into() } else { String::from_utf8_lossy(&v.value).to_string() })))
                .collect();
            want.sort();
            out.push((format!("get_user_state_versions({us:?},{f:?})"), got, want.join(",")));
        }
    }
    out
}

/// exact fingerprint of database + transaction + cache (relative to the virtual clock)
#[cfg(feature = "hooks")]
pub async fn fingerprint(db: &GateDb, mgr: &StorageManager<GateDb>) -> String {
    let mut s = String::new();
    for (_, r) in db.dump().await {
        s.push_str(&show_rec(&r));
        s.push(';');
    }
    let (txn, cache) = mgr.verif_parts();
    let (active, pending) = txn.verif_snapshot();
    s.push_str(&format!("|T{}:", active as u8));
    for (_, r) in pending {
        s.push_str(&show_rec(&r));
        s.push(';');
    }
    if let Some(c) = cache {
        let (azks, entries, last_clean, can_clean) = c.verif_snapshot().await;
        let now = std::time::Instant::now();
        s.push_str(&format!("|C{}:{}:", can_clean as u8, azks.map(|r| show_rec(&r)).unwrap_or("-".into())));
        for (_, r, exp) in entries {
            // relative expiry in ms (negative = expired)
            let rel: i128 = if exp >= now { exp.duration_since(now).as_millis() as i128 } else { -(now.duration_since(exp).as_millis() as i128) - 1 };
            s.push_str(&format!("{}~{};", show_rec(&r), rel));
        }
        s.push_str(&format!("|L{}", now.saturating_duration_since(last_clean).as_millis()));
    }
    s
}
