//! C05 — tree membership and non-membership proofs are sound and complete.

use super::c01::{leaf_commitment, universe8};
use super::hist::{E, W};
use crate::common::*;
use crate::gate::GateDb;
use crate::model::*;
use crate::report::Report;
use crate::Args;
use akd::append_only_zks::{Azks, AzksParallelismConfig, InsertMode};
use akd::verify::{verify_membership_for_tests_only, verify_nonmembership_for_tests_only};
use akd::{AzksElement, AzksValue, Direction, MembershipProof, NodeLabel, NonMembershipProof};
use serde_json::json;

fn flip(b: &Bits, i: usize) -> Bits {
    let mut v = b.0.clone();
    v[i] = !v[i];
    Bits(v)
}

pub fn elem(n: &MNode) -> AzksElement {
    AzksElement { label: bits_nl(&n.label), value: AzksValue(n.value) }
}

struct Case<'a, TC: ModelCfg> {
    azks: &'a Azks,
    mgr: &'a akd::storage::StorageManager<GateDb>,
    tree: &'a MTree,
    leaves: &'a [MLeaf],
    root_hash: D32,
    desc: String,
    db: &'a GateDb,
    uni: &'a [Bits],
    faults: bool,
    _tc: std::marker::PhantomData<TC>,
}

/// every interior node of the tree (root first) as a possible anchor, whether or not it lies on q's path:
/// (label, left, right, is a prefix of q)
pub fn all_anchors<'a>(tree: &'a MTree, q: &Bits) -> Vec<(Bits, Option<&'a MNode>, Option<&'a MNode>, bool)> {
    let mut out = vec![(Bits(vec![]), tree.left.as_ref(), tree.right.as_ref(), true)];
    for n in tree.nodes() {
        if !n.is_leaf {
            out.push((n.label.clone(), n.left.as_deref(), n.right.as_deref(), n.label.is_prefix_of(q)));
        }
    }
    out
}

/// all nodes on the model path whose label is a prefix of q, root first: (label, left, right)
pub fn anchors<'a>(tree: &'a MTree, q: &Bits) -> Vec<(Bits, Option<&'a MNode>, Option<&'a MNode>)> {
    let mut out = vec![(Bits(vec![]), tree.left.as_ref(), tree.right.as_ref())];
    let mut cur: Option<&MNode> = if q.0[0] { tree.right.as_ref() } else { tree.left.as_ref() };
    while let Some(n) = cur {
        if n.is_leaf || !n.label.is_prefix_of(q) {
            break;
        }
        out.push((n.label.clone(), n.left.as_deref(), n.right.as_deref()));
        cur = if q.0[n.label.len()] { n.right.as_deref() } else { n.left.as_deref() };
    }
    out
}

async fn run_case<TC: ModelCfg>(c: &Case<'_, TC>, queries: &[Bits], rep: &Report) {
    let empty = AzksElement { label: TC::empty_label(), value: TC::empty_node_hash() };
    for q in queries {
        let member = c.leaves.iter().find(|l| &l.label == q);
        let qn = bits_nl(q);
        // ---- honest membership proof
        rep.eval(1);
        match c.azks.get_membership_proof::<TC, _>(c.mgr, qn).await {
            Ok(p) => {
                let ok = p.label == qn && verify_membership_for_tests_only::<TC>(c.root_hash, &p).is_ok();
                match member {
                    Some(l) => {
                        let want = m_leaf_with_epoch::<TC>(&l.commitment, l.epoch);
                        if !ok || p.hash_val.0 != want {
                            rep.violation(
                                format!("{}/honest_membership_rejected_or_wrong_hash", TC::NAME),
                                json!({"set": c.desc, "query": q.show(), "verifies": ok}),
                            );
                        }
                    }
                    None => {
                        if ok {
                            rep.violation(format!("{}/membership_of_absent_label_verifies", TC::NAME), json!({"set": c.desc, "query": q.show()}));
                        }
                    }
                }
            }
            Err(e) => {
                if member.is_some() {
                    rep.violation(
                        format!("{}/honest_membership_generation_failed", TC::NAME),
                        json!({"set": c.desc, "query": q.show(), "error": format!("{e:?}")}),
                    );
                }
            }
        }
        // ---- honest non-membership proof
        rep.eval(1);
        match c.azks.get_non_membership_proof::<TC, _>(c.mgr, qn).await {
            Ok(p) => {
                let ok = p.label == qn && verify_nonmembership_for_tests_only::<TC>(c.root_hash, &p).is_ok();
                if member.is_some() && ok {
                    rep.violation(format!("{}/honest_generator_nonmembership_of_member_verifies", TC::NAME), json!({"set": c.desc, "query": q.show()}));
                }
                if member.is_none() && !ok {
                    rep.violation(
                        format!("{}/honest_nonmembership_rejected/{}", TC::NAME, if c.leaves.is_empty() { "empty_leaf_set" } else { "nonempty_leaf_set" }),
                        json!({"set": c.desc, "query": q.show()}),
                    );
                }
                if member.is_none() && ok {
                    rep.distinct(format!("{}:nm:{}:{}", TC::NAME, c.desc, q.show()));
                }
            }
            Err(e) => {
                if member.is_none() {
                    rep.violation(
                        format!("{}/honest_nonmembership_generation_failed", TC::NAME),
                        json!({"set": c.desc, "query": q.show(), "error": format!("{e:?}")}),
                    );
                }
            }
        }
        // ---- proof generation with ONE failing storage read (every position): the generator errors or
        // returns exactly the fault-free proof; a silently different proof describes a different tree
        if c.faults && c.uni.contains(q) {
            let ctl = &c.db.ctl;
            ctl.arm(None);
            let m0 = c.azks.get_membership_proof::<TC, _>(c.mgr, qn).await.ok();
            let nm = ctl.disarm();
            ctl.arm(None);
            let n0 = c.azks.get_non_membership_proof::<TC, _>(c.mgr, qn).await.ok();
            let nn = ctl.disarm();
            for k in 0..nm {
                rep.eval(1);
                ctl.arm(Some(k));
                let r = c.azks.get_membership_proof::<TC, _>(c.mgr, qn).await;
                ctl.disarm();
                if let Ok(p) = r {
                    if Some(&p) != m0.as_ref() {
                        rep.violation(
                            format!("{}/proof_generated_under_read_fault_differs/membership", TC::NAME),
                            json!({"set": c.desc, "query": q.show(), "failed_read": k, "of": nm, "returned_label": nl_bits(&p.label).show(), "siblings": p.sibling_proofs.len()}),
                        );
                    }
                } else {
                    rep.count("generation_refused_under_fault", 1);
                }
            }
            for k in 0..nn {
                rep.eval(1);
                ctl.arm(Some(k));
                let r = c.azks.get_non_membership_proof::<TC, _>(c.mgr, qn).await;
                ctl.disarm();
                if let Ok(p) = r {
                    if Some(&p) != n0.as_ref() {
                        rep.violation(
                            format!("{}/proof_generated_under_read_fault_differs/nonmembership", TC::NAME),
                            json!({"set": c.desc, "query": q.show(), "failed_read": k, "of": nn, "claimed_longest_prefix": nl_bits(&p.longest_prefix).show()}),
                        );
                    }
                } else {
                    rep.count("generation_refused_under_fault", 1);
                }
            }
        }
        // ---- adversarial non-membership: every ancestor as claimed longest prefix
        let anc = anchors(c.tree, q);
        let deepest = anc.len() - 1;
        for (depth, (alabel, l, r)) in anc.iter().enumerate() {
            let an = bits_nl(alabel);
            let Ok(mp) = c.azks.get_membership_proof::<TC, _>(c.mgr, an).await else { continue };
            if mp.label != an {
                continue;
            }
            let le = l.map(elem).unwrap_or(empty);
            let re = r.map(elem).unwrap_or(empty);
            // children variants: real, swapped, one replaced by the empty element, one replaced by
            // its own children's parent-less grandchild (deeper real node)
            let mut variants: Vec<(&str, [AzksElement; 2])> = vec![("real", [le, re]), ("swapped", [re, le]), ("left_empty", [empty, re]), ("right_empty", [le, empty])];
            if let Some(ln) = l {
                if let (Some(a), Some(_b)) = (&ln.left, &ln.right) {
                    variants.push(("left_grandchild", [elem(a), re]));
                }
            }
            if let Some(rn) = r {
                if let (Some(_a), Some(b)) = (&rn.left, &rn.right) {
                    variants.push(("right_grandchild", [le, elem(b)]));
                }
            }
            for (vname, ch) in variants {
                rep.eval(1);
                let cand = NonMembershipProof { label: qn, longest_prefix: an, longest_prefix_children: ch, longest_prefix_membership_proof: mp.clone() };
                if verify_nonmembership_for_tests_only::<TC>(c.root_hash, &cand).is_ok() {
                    if member.is_some() {
                        rep.violation(
                            format!("{}/forged_absence_of_present_leaf_accepted/{}", TC::NAME, vname),
                            json!({"set": c.desc, "query": q.show(), "anchor": alabel.show(), "anchor_depth": depth, "deepest_matching_depth": deepest,
                                   "children": vname, "note": "non-membership proof anchored at a real ancestor with its real children verifies although the label is in the set"}),
                        );
                    } else if depth < deepest {
                        rep.violation(
                            format!("{}/shallow_anchor_accepted/{}", TC::NAME, vname),
                            json!({"set": c.desc, "query": q.show(), "anchor": alabel.show(), "anchor_depth": depth, "deepest_matching_depth": deepest, "children": vname}),
                        );
                    } else {
                        rep.distinct(format!("{}:adv-nm-true:{}:{}:{}", TC::NAME, c.desc, q.show(), vname));
                    }
                }
            }
        }
        // ---- adversarial non-membership anchored at nodes that are NOT on q's path (real children, real proof)
        for (alabel, l, r, on_path) in all_anchors(c.tree, q) {
            if on_path {
                continue;
            }
            let an = bits_nl(&alabel);
            let Ok(mp) = c.azks.get_membership_proof::<TC, _>(c.mgr, an).await else { continue };
            if mp.label != an {
                continue;
            }
            rep.eval(1);
            let cand = NonMembershipProof {
                label: qn,
                longest_prefix: an,
                longest_prefix_children: [l.map(elem).unwrap_or(empty), r.map(elem).unwrap_or(empty)],
                longest_prefix_membership_proof: mp,
            };
            if verify_nonmembership_for_tests_only::<TC>(c.root_hash, &cand).is_ok() {
                rep.violation(
                    format!("{}/nonmembership_anchored_off_path_accepted/{}", TC::NAME, if member.is_some() { "label_present" } else { "label_absent" }),
                    json!({"set": c.desc, "query": q.show(), "anchor": alabel.show(), "note": "the claimed longest prefix is not a prefix of the queried label"}),
                );
            }
        }
        // ---- adversarial membership for q: real proofs of every leaf with fields replaced
        if member.is_none() {
            for l in c.leaves.iter() {
                let Ok(p) = c.azks.get_membership_proof::<TC, _>(c.mgr, bits_nl(&l.label)).await else { continue };
                let mut cands: Vec<(String, MembershipProof)> = vec![];
                let mut a = p.clone();
                a.label = qn;
                cands.push(("label_replaced".into(), a));
                for k in 0..p.sibling_proofs.len() {
                    let mut b = p.clone();
                    b.label = qn;
                    b.sibling_proofs[k].direction = match b.sibling_proofs[k].direction {
                        Direction::Left => Direction::Right,
                        Direction::Right => Direction::Left,
                    };
                    cands.push((format!("label_replaced+direction_flipped@{k}"), b));
                    let mut d = p.clone();
                    d.label = qn;
                    d.sibling_proofs[k].siblings[0].label = bits_nl(&l.label);
                    cands.push((format!("label_replaced+sibling_label_replaced@{k}"), d));
                    // truncated path: present the node at level k as if it were q
                    let mut t = p.clone();
                    t.label = qn;
                    t.sibling_proofs.truncate(k);
                    cands.push((format!("label_replaced+path_truncated@{k}"), t));
                    // the same with the hash of the real node at that level (root value for k = 0): the
                    // proof then recomputes the true root, only the label binds it to q
                    let plabel = nl_bits(&p.sibling_proofs[k].label);
                    let pval = if plabel.len() == 0 { Some(c.tree.root_value) } else { c.tree.nodes().into_iter().find(|n| n.label == plabel).map(|n| n.value) };
                    if let Some(pv) = pval {
                        let mut t2 = p.clone();
                        t2.label = qn;
                        t2.sibling_proofs.truncate(k);
                        t2.hash_val = AzksValue(pv);
                        cands.push((format!("label_replaced+path_truncated_to_real_node{}@{k}", if k == 0 { "_root" } else { "" }), t2));
                    }
                }
                for (name, cand) in cands {
                    rep.eval(1);
                    if verify_membership_for_tests_only::<TC>(c.root_hash, &cand).is_ok() {
                        rep.violation(
                            format!("{}/forged_membership_accepted/{}", TC::NAME, name.split('@').next().unwrap()),
                            json!({"set": c.desc, "query": q.show(), "from_leaf": l.label.show(), "alteration": name}),
                        );
                    }
                }
            }
        } else {
            // member: any other leaf's hash substituted must fail
            let l = member.unwrap();
            if let Ok(p) = c.azks.get_membership_proof::<TC, _>(c.mgr, qn).await {
                for o in c.leaves.iter().filter(|o| o.label != l.label) {
                    rep.eval(1);
                    let mut cand = p.clone();
                    cand.hash_val = AzksValue(m_leaf_with_epoch::<TC>(&o.commitment, o.epoch));
                    if verify_membership_for_tests_only::<TC>(c.root_hash, &cand).is_ok() {
                        rep.violation(format!("{}/membership_with_foreign_hash_accepted", TC::NAME), json!({"set": c.desc, "query": q.show()}));
                    }
                }
                rep.eval(1);
                let mut cand = p.clone();
                cand.hash_val = AzksValue(m_leaf_with_epoch::<TC>(&l.commitment, l.epoch + 1));
                if verify_membership_for_tests_only::<TC>(c.root_hash, &cand).is_ok() {
                    rep.violation(format!("{}/membership_with_wrong_epoch_accepted", TC::NAME), json!({"set": c.desc, "query": q.show()}));
                }
            }
        }
    }
}

/// the 8-label universe plus labels sharing exactly 63, 64 and 65 leading bits with the base label
/// (word boundary), thorough only
fn universe_c05(thorough: bool) -> Vec<Bits> {
    let mut uni = universe8();
    if thorough {
        let b = uni[0].clone();
        for p in [63usize, 64, 65] {
            let tail = blake3::hash(format!("akdmc universe tail {p}").as_bytes());
            let t = Bits::from_bytes(tail.as_bytes(), 256);
            let mut v = b.0[..p].to_vec();
            v.push(!b.0[p]);
            v.extend_from_slice(&t.0[p + 1..]);
            uni.push(Bits(v));
        }
    }
    uni
}

fn run_cfg<TC: ModelCfg>(args: &Args, rep: &Report) {
    let uni = universe_c05(!args.quick());
    // queries: the universe plus, for each universe label, single-bit flips at boundary positions
    let mut queries: Vec<Bits> = uni.clone();
    for u in &uni {
        for i in [0usize, 1, 2, 7, 8, 9, 63, 64, 65, 254, 255] {
            let f = flip(u, i);
            if !queries.contains(&f) {
                queries.push(f);
            }
        }
    }
    let two_epoch_modes: &[bool] = if args.quick() { &[true] } else { &[false, true] };
    let mut items = vec![];
    let nuni = uni.len();
    for mask in 0u32..(1u32 << nuni) {
        // beyond the 8 base labels: only sets that contain at least one of the word-boundary labels and
        // at most 5 labels (keeps the thorough tier bounded)
        if mask >= 256 && mask.count_ones() > 5 {
            continue;
        }
        for &two in two_epoch_modes {
            items.push((mask, two));
        }
    }
    let queries = &queries;
    crate::explore::par_for(args.threads, &items, |_, &(mask, two)| {
        let rt = crate::gate::plain_runtime();
        rt.block_on(async {
            let set: Vec<usize> = (0..nuni).filter(|i| mask & (1 << i) != 0).collect();
            let db = GateDb::new();
            let mgr = manager(&db, CacheCfg::None);
            let mut azks = Azks::new::<TC, _>(&mgr).await.unwrap();
            let mut leaves = vec![];
            let split = if two { set.len() / 2 } else { set.len() };
            for (epoch, part) in [(1u64, &set[..split]), (2u64, &set[split..])] {
                if part.is_empty() {
                    if epoch == 1 && !set.is_empty() {
                        // keep epochs aligned with the model: an empty first batch still bumps the epoch
                        azks.batch_insert_nodes::<TC, _>(&mgr, vec![], InsertMode::Directory, AzksParallelismConfig::disabled()).await.unwrap();
                    }
                    continue;
                }
                let nodes: Vec<AzksElement> =
                    part.iter().map(|&i| AzksElement { label: bits_nl(&uni[i]), value: AzksValue(leaf_commitment(i)) }).collect();
                for &i in part {
                    leaves.push(MLeaf { label: uni[i].clone(), commitment: leaf_commitment(i), epoch });
                }
                azks.batch_insert_nodes::<TC, _>(&mgr, nodes, InsertMode::Directory, AzksParallelismConfig::disabled()).await.unwrap();
            }
            let tree = trie::<TC>(&leaves);
            let root_hash = azks.get_root_hash::<TC, _>(&mgr).await.unwrap();
            if root_hash != tree.root_hash {
                rep.violation(format!("{}/root_differs_from_model", TC::NAME), json!({"set": set}));
                return;
            }
            let desc = format!("{:?}{}", set, if two { "/2ep" } else { "/1ep" });
            let case = Case::<TC> { azks: &azks, mgr: &mgr, tree: &tree, leaves: &leaves, root_hash, desc: desc.clone(), db: &db, uni: &uni, faults: mask < 256, _tc: Default::default() };
            run_case(&case, queries, rep).await;
            if mask == 0b10110101 {
                rep.sample(json!({"cfg": TC::NAME, "leaf_set": desc, "queries": queries.len(),
                    "labels": set.iter().map(|&i| uni[i].show()).collect::<Vec<_>>()}));
            }
        });
    });
}

pub fn run(args: &Args) -> i32 {
    let rep = Report::new("C05", &args.tier, "exploration");
    run_cfg::<W>(args, &rep);
    run_cfg::<E>(args, &rep);
    rep.finish(
        "all 256 subsets of an 8-label universe whose members share exactly 0,1,7,8,9,254,255 leading bits with a base label (inserted over two epochs; thorough also one epoch) x 63+ query labels (universe + single-bit flips at bit 0,1,2,7,8,9,254,255): honest membership and non-membership proofs from the real generators, and adversarial candidates assembled from real nodes: every ancestor of the query as claimed longest prefix with real/swapped/emptied/grandchild children; every real leaf path with the label replaced and a direction, sibling label or path length altered; foreign leaf hashes and epochs; the real generators re-run with each single storage read failing (result: error, or exactly the fault-free proof). Oracle: verifies <=> statement true of the leaf set (non-membership additionally only from the deepest matching node). distinct = distinct (configuration, set, query) true non-membership statements verified",
        &["blake3 collision resistance", "verify_*_for_tests_only are thin wrappers of the production verifiers"],
    )
}
