//! One module per property (or family of properties sharing an enumeration).

use crate::Args;

pub mod c01;
pub mod c02;
pub mod c03;
pub mod c04;
pub mod c05;
pub mod c06;
pub mod c07;
pub mod c08;
pub mod c09;
pub mod c10;
pub mod c11;
pub mod c12;
pub mod c13;
pub mod c14;
pub mod c15;
pub mod c16;
pub mod store;
pub mod c17;
pub mod c18;
pub mod c19;
pub mod c20;
pub mod hist;

/// `--replay <file>`: re-execute one recorded violation without the explorer (scheduler-based checks),
/// or print the recorded self-describing case (enumeration checks)
fn replay(args: &Args, path: &str) -> i32 {
    let Ok(txt) = std::fs::read_to_string(path) else {
        eprintln!("cannot read replay file {path}");
        return 2;
    };
    let Ok(v) = serde_json::from_str::<serde_json::Value>(&txt) else {
        eprintln!("replay file {path} is not JSON");
        return 2;
    };
    let identity = v["identity"].as_str().unwrap_or("").to_string();
    let choices: Vec<u32> = v["detail"]["choices"].as_array().map(|a| a.iter().filter_map(|x| x.as_u64().map(|y| y as u32)).collect()).unwrap_or_default();
    match args.id.as_str() {
        "C12" => c12::replay(args, &identity, choices),
        "C13" if !identity.contains("/lag1_all_histories/") => c13::replay(args, &identity, choices),
        _ => {
            println!("recorded violation of {} (identity: {identity})", args.id);
            println!("{}", serde_json::to_string_pretty(&v["detail"]).unwrap_or_default());
            println!("(enumeration check: the recorded case above is the complete failing input; re-running `bin/check {} --tier quick` re-derives it)", args.id);
            1
        }
    }
}

pub fn dispatch(args: &Args) -> i32 {
    if let Some(p) = &args.replay {
        return replay(args, p);
    }
    match args.id.as_str() {
        "C01" => c01::run(args),
        "C02" => c02::run(args),
        "C03" => c03::run(args),
        "C04" => c04::run(args),
        "C05" => c05::run(args),
        "C06" => c06::run(args),
        "C07" => c07::run(args),
        "C08" => c08::run(args),
        "C09" => c09::run(args),
        "C10" => c10::run(args),
        "C11" => c11::run(args),
        "C12" => c12::run(args),
        "C13" => c13::run(args),
        "C14" => c14::run(args),
        "C15" => c15::run(args),
        "C16" => c16::run(args),
        "C17" => c17::run(args),
        "C18" => c18::run(args),
        "C19" => c19::run(args),
        "C20" => c20::run(args),
        "selfcheck" => {
            let ok = crate::vclock::self_check();
            println!("virtual clock self-check: {ok}");
            if ok {
                0
            } else {
                2
            }
        }
        other => {
            eprintln!("unknown check id {other}");
            2
        }
    }
}
