//! C20 — tombstoning old values never changes what the directory has committed to.

use super::hist::*;
use crate::common::*;
use crate::gate::{rec_key, GateDb, GateVrf};
use crate::model::*;
use crate::oracles::*;
use crate::report::Report;
use crate::Args;
use akd::append_only_zks::AzksParallelismConfig;
use akd::directory::Directory;
use akd::storage::types::DbRecord;
use akd::{AkdLabel, HistoryParams, HistoryVerificationParams};
use serde_json::json;
use std::future::Future;
use std::pin::Pin;

struct V20<'r> {
    rep: &'r Report,
    continuation: bool,
}

#[derive(Clone, Copy, Debug, PartialEq)]
enum Via {
    OwnManagerNoCache,
    OwnManagerCachedWarm,
    SecondManager,
    /// through the directory's own manager while a storage transaction is open (as during an in-flight
    /// publish): the tombstones join the transaction and are committed with an unchanged epoch record
    InsideTransaction,
}

fn params_menu(total: usize) -> Vec<HistoryParams> {
    let mut v = vec![HistoryParams::Complete];
    for k in 1..=total + 1 {
        v.push(HistoryParams::MostRecent(k));
    }
    v
}

async fn check_label_history<TC: ModelCfg>(
    rep: &Report,
    dir: &Dir<TC>,
    label: &[u8],
    model: &DirModel,
    published: &[D32],
    cutoff: u64,
    ident: &dyn Fn(&str) -> String,
    ctx: &dyn Fn() -> serde_json::Value,
) {
    let total = model.users[label].len();
    for p in params_menu(total) {
        let n = match p {
            HistoryParams::Complete => None,
            HistoryParams::MostRecent(n) => Some(n),
        };
        let truth = model.history(label, n).unwrap();
        // entries actually replaced: at or before the cut-off and not already empty
        let replaced: Vec<bool> = truth.iter().map(|(v, _, e)| *e <= cutoff && !v.is_empty()).collect();
        let expected_missing: Vec<VR> = truth.iter().zip(replaced.iter()).map(|(t, r)| if *r { (vec![], t.1, t.2) } else { t.clone() }).collect();
        rep.eval(1);
        match dir.key_history(&AkdLabel(label.to_vec()), p).await {
            Err(e) => rep.violation(ident("history_generation_failed_after_tombstoning"), json!({"ctx": ctx(), "params": hp_name(&p), "error": format!("{e:?}")})),
            Ok((proof, eh)) => {
                if eh.0 != model.epoch || eh.1 != published[model.epoch as usize] {
                    rep.violation(ident("history_epoch_hash_changed"), json!({"ctx": ctx(), "params": hp_name(&p)}));
                    continue;
                }
                let am = verify_history::<TC>(label, proof.clone(), &eh, HistoryVerificationParams::AllowMissingValues { history_params: p });
                match am {
                    Ok(list) if list == expected_missing => {}
                    other => rep.violation(
                        ident("history_allow_missing_wrong"),
                        json!({"ctx": ctx(), "params": hp_name(&p), "got": format!("{other:?}").chars().take(400).collect::<String>(),
                               "expected": expected_missing.iter().map(show_vr).collect::<Vec<_>>()}),
                    ),
                }
                let df = verify_history::<TC>(label, proof, &eh, HistoryVerificationParams::Default { history_params: p });
                let any_replaced = replaced.iter().any(|r| *r);
                match (df, any_replaced) {
                    (Err(_), true) => {}
                    (Ok(list), false) if list == truth => {}
                    (other, _) => rep.violation(
                        ident(if any_replaced { "default_mode_accepts_tombstoned_entry" } else { "default_mode_rejects_untouched_history" }),
                        json!({"ctx": ctx(), "params": hp_name(&p), "got": format!("{other:?}").chars().take(300).collect::<String>(), "range_contains_replaced_entry": any_replaced}),
                    ),
                }
            }
        }
    }
}

impl<'r, TC: ModelCfg> HistVisitor<TC> for V20<'r> {
    fn visit<'a>(&'a self, ctx: &'a HistCtx<TC>) -> Pin<Box<dyn Future<Output = ()> + 'a>> {
        Box::pin(async move {
            if !matches!(ctx.last, Some(MPublish::NewEpoch(_))) {
                return;
            }
            let hist = || show_history(&ctx.history);
            let cur = ctx.model.epoch;
            for (label, versions) in ctx.model.users.iter() {
                if versions.len() < 2 {
                    continue;
                }
                let latest_update = versions.last().unwrap().1;
                for cutoff in 0..latest_update {
                    for via in [Via::OwnManagerNoCache, Via::OwnManagerCachedWarm, Via::SecondManager, Via::InsideTransaction] {
                        let db = ctx.db.fork().await;
                        let before = db.dump().await;
                        let mgr = manager(&db, if via == Via::OwnManagerNoCache || via == Via::InsideTransaction { CacheCfg::None } else { CacheCfg::Default });
                        let dir: Dir<TC> = Directory::<TC, _, _>::new(mgr.clone(), GateVrf::new(), AzksParallelismConfig::disabled()).await.unwrap();
                        if via != Via::OwnManagerNoCache && via != Via::InsideTransaction {
                            // warm the cache with this label's material
                            let _ = dir.key_history(&AkdLabel(label.clone()), HistoryParams::Complete).await;
                            let _ = dir.lookup(AkdLabel(label.clone())).await;
                        }
                        let tomb_mgr = if via == Via::SecondManager { manager(&db, CacheCfg::None) } else { mgr.clone() };
                        let ident = |k: &str| format!("{}/{:?}/{}", TC::NAME, via, k);
                        let cx = || json!({"history": hist(), "label": show_bytes(label), "cutoff_epoch": cutoff, "latest_update_epoch": latest_update, "via": format!("{via:?}")});
                        self.rep.eval(1);
                        let tomb_result = if via == Via::InsideTransaction {
                            use akd::storage::types::DbRecord as R;
                            let azks = match mgr.get::<akd::Azks>(&akd::append_only_zks::DEFAULT_AZKS_KEY).await {
                                Ok(R::Azks(a)) => a,
                                other => panic!("no epoch record: {other:?}"),
                            };
                            assert!(mgr.begin_transaction());
                            let r = mgr.tombstone_value_states(&AkdLabel(label.clone()), cutoff).await;
                            // readers served while the transaction is still open (a publish in flight) see the tombstones only
                            // as pending records: every label's lookup still verifies to its latest version
                            for l in ctx.model.users.keys() {
                                if let Err(b) = check_lookup::<TC, _>(&dir, l, &ctx.model, &ctx.published, Some(cur)).await {
                                    self.rep.violation(ident(&format!("lookup_while_transaction_open/{}/{}", if l == label { "own" } else { "other" }, b.kind)), json!({"ctx": cx(), "detail": b.detail}));
                                }
                            }
                            let _ = mgr.set(R::Azks(azks)).await;
                            let c = mgr.commit_transaction().await;
                            match (r, c) {
                                (Ok(()), Ok(_)) => Ok(()),
                                (Err(e), _) => Err(e),
                                (_, Err(e)) => Err(e),
                            }
                        } else {
                            tomb_mgr.tombstone_value_states(&AkdLabel(label.clone()), cutoff).await
                        };
                        if let Err(e) = tomb_result {
                            self.rep.violation(ident("tombstone_failed"), json!({"ctx": cx(), "error": format!("{e:?}")}));
                            continue;
                        }
                        // storage: only this label's value records at or before the cut-off changed, to the empty value
                        let after = db.dump().await;
                        if before.len() != after.len() {
                            self.rep.violation(ident("tombstoning_changed_record_set"), cx());
                        }
                        for ((k0, r0), (k1, r1)) in before.iter().zip(after.iter()) {
                            if k0 != k1 {
                                self.rep.violation(ident("tombstoning_changed_record_keys"), cx());
                                break;
                            }
                            if r0 != r1 {
                                let ok = match (r0, r1) {
                                    (DbRecord::ValueState(a), DbRecord::ValueState(b)) => {
                                        a.username.0 == *label && a.epoch <= cutoff && b.value.0.is_empty() && a.version == b.version && a.epoch == b.epoch && a.label == b.label && a.username == b.username
                                    }
                                    _ => false,
                                };
                                if !ok {
                                    self.rep.violation(ident("tombstoning_changed_other_record"), json!({"ctx": cx(), "key": crate::gate::short_key(k0)}));
                                }
                            }
                        }
                        for (k, r) in after.iter() {
                            if let DbRecord::ValueState(v) = r {
                                if v.username.0 == *label && v.epoch <= cutoff && !v.value.0.is_empty() {
                                    self.rep.violation(ident("value_at_or_before_cutoff_not_tombstoned"), json!({"ctx": cx(), "key": crate::gate::short_key(k)}));
                                }
                            }
                        }
                        // commitments: epoch hash, audits, the label's own lookup, every other label unchanged and verifying
                        match dir.get_epoch_hash().await {
                            Ok(eh) if eh.0 == cur && eh.1 == ctx.published[cur as usize] => {}
                            other => self.rep.violation(ident("epoch_hash_changed"), json!({"ctx": cx(), "got": format!("{other:?}")})),
                        }
                        if let Err(b) = check_lookup::<TC, _>(&dir, label, &ctx.model, &ctx.published, Some(cur)).await {
                            self.rep.violation(ident(&format!("own_lookup/{}", b.kind)), json!({"ctx": cx(), "detail": b.detail}));
                        }
                        for other in ctx.model.users.keys().filter(|l| *l != label) {
                            if let Err(b) = check_lookup::<TC, _>(&dir, other, &ctx.model, &ctx.published, Some(cur)).await {
                                self.rep.violation(ident(&format!("other_label_lookup/{}", b.kind)), json!({"ctx": cx(), "detail": b.detail}));
                            }
                            if let Err(b) = check_history::<TC, _>(&dir, other, HistoryParams::Complete, &ctx.model, &ctx.published, Some(cur)).await {
                                self.rep.violation(ident(&format!("other_label_history/{}", b.kind)), json!({"ctx": cx(), "detail": b.detail}));
                            }
                        }
                        for s in 0..cur {
                            for e in s + 1..=cur {
                                if let Err(b) = check_audit::<TC, _>(&dir, s, e, &ctx.published).await {
                                    self.rep.violation(ident(&format!("audit/{}", b.kind)), json!({"ctx": cx(), "detail": b.detail}));
                                }
                            }
                        }
                        check_label_history::<TC>(self.rep, &dir, label, &ctx.model, &ctx.published, cutoff, &ident, &cx).await;
                        self.rep.distinct(format!("{}:{}:{}:cut{}:{:?}", TC::NAME, hist(), show_bytes(label), cutoff, via));
                        // a fresh instance sees the same
                        let fresh = new_dir::<TC>(&db, &GateVrf::new(), CacheCfg::None, AzksParallelismConfig::disabled()).await;
                        let ident_f = |k: &str| format!("{}/{:?}/fresh_instance/{}", TC::NAME, via, k);
                        check_label_history::<TC>(self.rep, &fresh, label, &ctx.model, &ctx.published, cutoff, &ident_f, &cx).await;
                        // continuation publishes follow DirModel
                        if via != Via::SecondManager && (self.continuation || via == Via::OwnManagerNoCache) {
                            let mut conts: Vec<Batch> = vec![
                                vec![(label.clone(), versions.last().unwrap().0.clone())], // re-submit the current value
                                vec![(label.clone(), b"after-tombstone".to_vec())],       // update it
                                vec![(label.clone(), vec![])],                           // update it to the empty value
                            ];
                            if let Some(other) = ctx.model.users.keys().find(|l| *l != label) {
                                conts.push(vec![(other.clone(), b"other-after".to_vec())]);
                            }
                            for cb in conts {
                                let db2 = db.fork().await;
                                let d2 = new_dir::<TC>(&db2, &GateVrf::new(), if via == Via::OwnManagerNoCache { CacheCfg::None } else { CacheCfg::Default }, AzksParallelismConfig::disabled()).await;
                                let mut m2 = ctx.model.clone();
                                let exp = m2.publish(&cb);
                                let mut pub2 = ctx.published.clone();
                                if let MPublish::NewEpoch(_) = exp {
                                    pub2.push(model_root::<TC>(&m2).0);
                                }
                                self.rep.eval(1);
                                match d2.publish(to_akd_batch(&cb)).await {
                                    Ok(eh) if eh.0 == m2.epoch && eh.1 == pub2[m2.epoch as usize] => {}
                                    other => {
                                        self.rep.violation(ident("continuation_publish_wrong"), json!({"ctx": cx(), "batch": show_batch(&cb), "got": format!("{other:?}"), "expected": format!("{exp:?}")}));
                                        continue;
                                    }
                                }
                                let ident_c = |k: &str| format!("{}/{:?}/after_continuation/{}", TC::NAME, via, k);
                                let cx2 = || json!({"history": hist(), "label": show_bytes(label), "cutoff_epoch": cutoff, "then": show_batch(&cb)});
                                check_label_history::<TC>(self.rep, &d2, label, &m2, &pub2, cutoff, &ident_c, &cx2).await;
                                if let Err(b) = check_lookup::<TC, _>(&d2, label, &m2, &pub2, Some(m2.epoch)).await {
                                    self.rep.violation(ident_c(&format!("own_lookup/{}", b.kind)), json!({"ctx": cx2(), "detail": b.detail}));
                                }
                            }
                        }
                    }
                }
                self.rep.sample(json!({"cfg": TC::NAME, "history": hist(), "label": show_bytes(label), "versions": versions.len(), "cutoffs": latest_update}));
            }
        })
    }
}

pub fn run(args: &Args) -> i32 {
    let rep = Report::new("C20", &args.tier, "exploration");
    let plan = if args.quick() {
        Plan { base_depth: 2, ext_depth: 2, chains: vec![(4, 1)], shape_depth: 1, cache: CacheCfg::None, par: AzksParallelismConfig::disabled() }
    } else {
        Plan { base_depth: 3, ext_depth: 3, chains: vec![(9, 1)], shape_depth: 1, cache: CacheCfg::None, par: AzksParallelismConfig::disabled() }
    };
    let v = V20 { rep: &rep, continuation: !args.quick() };
    run_plan(args.threads, &plan, &v);
    rep.extra("plan", json!(plan_note(&plan)));
    let _ = rec_key;
    let _: Option<GateDb> = None;
    rep.finish(
        "after every epoch of every history, for every label with >= 2 versions and EVERY cut-off epoch before its latest update (incl. 0 and epochs where it did not change): tombstone through the directory's own manager (uncached; cached and warmed) and through a second manager; then: storage differs only in that label's value records at or before the cut-off (now empty); epoch hash, all audits, the label's own lookup and every other label's lookup/history unchanged and verifying; the label's history under AllowMissingValues equals DirModel with exactly the replaced values empty, under Default it is rejected iff the requested range contains a replaced entry, for Complete and every MostRecent(k); same on a fresh instance; continuation publishes (re-submit current value, update, update to the empty value, other label) follow DirModel and the checks repeat. One evaluation = one tombstone operation / history verification / continuation publish",
        &["blake3 collision resistance", "hard-coded test VRF key", "an entry whose true value is already empty is not 'tombstoned' (as the property states)"],
    )
}
