//! C16 — the object cache never changes what a read returns.
//!
//! E3 (sequential histories, explicit-state BFS with exact fingerprints under a virtual clock)
//! plus E2 (2–3 concurrent tasks on one manager under the controlled scheduler).

use super::c15::{self, Op as Op15};
use super::store::*;
use crate::common::*;
use crate::explore::{explore, Chooser};
use crate::gate::*;
use crate::report::Report;
use crate::Args;
use akd::append_only_zks::Azks;
use akd::storage::types::{DbRecord, ValueState, ValueStateKey, ValueStateRetrievalFlag};
use akd::storage::{Database, DbSetState, Storable, StorageManager};
use akd::tree_node::{NodeKey, TreeNodeWithPreviousValue};
use akd::AkdLabel;
use serde_json::json;
use std::collections::{BTreeSet, HashSet};
use std::sync::Mutex;

#[derive(Clone, Copy, Debug, PartialEq, Eq)]
enum Op {
    /// a write / transaction op shared with C15
    Base(Op15),
    /// the same write, but the database rejects it
    Rejected(Op15),
    /// commit whose batch the database rejects
    CommitRejected,
    Flush,
    Tombstone(usize, u64),
    ReadAzks,
    ReadNode(usize),
    ReadBatchNodes,
    ReadUserState(usize),
    Advance(u64),
    DisableClean,
    EnableClean,
    /// another writer changes storage behind the manager's back
    ExternalAzks(u64),
    ExternalNode(usize, u64),
}

fn show(op: &Op) -> String {
    match op {
        Op::Base(o) => c15::show_op(o),
        Op::Rejected(o) => format!("{} [database rejects the write]", c15::show_op(o)),
        Op::CommitRejected => "commit [database rejects the batch]".into(),
        Op::Flush => "flush_cache".into(),
        Op::Tombstone(u, e) => format!("tombstone_value_states({}, {e})", USERS[*u]),
        Op::ReadAzks => "get(azks)".into(),
        Op::ReadNode(i) => format!("get(node{i})"),
        Op::ReadBatchNodes => "batch_get(nodes)".into(),
        Op::ReadUserState(u) => format!("get_user_state({}, MaxEpoch)", USERS[*u]),
        Op::Advance(ms) => format!("advance clock {ms} ms"),
        Op::DisableClean => "disable_cache_cleaning".into(),
        Op::EnableClean => "enable_cache_cleaning".into(),
        Op::ExternalAzks(e) => format!("EXTERNAL writer: azks e{e}"),
        Op::ExternalNode(i, c) => format!("EXTERNAL writer: node{i} e{c}"),
    }
}

#[derive(Clone, Default)]
struct M16 {
    store: StoreModel,
    /// keys that another writer changed since the last flush: the cache may legitimately lag on these
    stale: BTreeSet<Vec<u8>>,
}

struct Uni {
    n_nodes: usize,
    users: usize,
    max_epoch: u64,
}

fn alphabet(u: &Uni, external: bool) -> Vec<Op> {
    let mut ops = vec![Op::Base(Op15::Begin), Op::Base(Op15::Commit), Op::CommitRejected, Op::Base(Op15::Rollback), Op::Flush];
    for e in 1..=u.max_epoch {
        ops.push(Op::Base(Op15::SetAzks(e)));
    }
    ops.push(Op::Rejected(Op15::SetAzks(u.max_epoch)));
    ops.push(Op::Base(Op15::BatchAzksFirst(u.max_epoch)));
    for i in 0..u.n_nodes {
        for c in 1..=u.max_epoch {
            ops.push(Op::Base(Op15::SetNode(i, c)));
        }
        ops.push(Op::Rejected(Op15::SetNode(i, u.max_epoch)));
        ops.push(Op::ReadNode(i));
    }
    for usr in 0..u.users {
        for e in 1..=u.max_epoch {
            ops.push(Op::Base(Op15::Append(usr, e)));
            ops.push(Op::Base(Op15::Rewrite(usr, e)));
            ops.push(Op::Base(Op15::BatchAppendAzks(usr, e)));
        }
        ops.push(Op::Rejected(Op15::Append(usr, u.max_epoch)));
        ops.push(Op::Rejected(Op15::BatchAppendAzks(usr, u.max_epoch)));
        ops.push(Op::Tombstone(usr, 1));
        ops.push(Op::ReadUserState(usr));
    }
    ops.push(Op::ReadAzks);
    ops.push(Op::ReadBatchNodes);
    for ms in [1u64, 3, 20, 31_000] {
        ops.push(Op::Advance(ms));
    }
    ops.push(Op::DisableClean);
    ops.push(Op::EnableClean);
    if external {
        ops.push(Op::ExternalAzks(u.max_epoch));
        ops.push(Op::ExternalNode(0, u.max_epoch));
    }
    ops
}

fn enabled(op: &Op, m: &M16) -> bool {
    match op {
        Op::Base(o) => c15::enabled(o, &m.store),
        Op::Rejected(o) => !m.store.active && c15::enabled(o, &m.store),
        Op::CommitRejected => m.store.active && m.store.pending.values().any(|r| matches!(r, DbRecord::Azks(_))),
        _ => true,
    }
}

async fn apply(op: &Op, db: &GateDb, mgr: &StorageManager<GateDb>, m: &mut M16) -> Option<(String, String)> {
    match op {
        Op::Base(o) => {
            // a write-through of a key refreshes the cache for that key
            if let Some(recs) = c15::records_of(o, &m.store) {
                if !m.store.active {
                    for r in &recs {
                        m.stale.remove(&rec_key(r));
                    }
                }
            }
            // a commit that goes through writes every pending key through (a refused commit —
            // no epoch record in the log — writes nothing, so external changes stay unseen)
            if matches!(o, Op15::Commit) && m.store.active && m.store.pending.values().any(|r| matches!(r, DbRecord::Azks(_))) {
                for k in m.store.pending.keys() {
                    m.stale.remove(k);
                }
            }
            c15::apply(o, db, mgr, &mut m.store).await.violation
        }
        Op::Rejected(o) => {
            let recs = c15::records_of(o, &m.store).expect("enabled");
            db.ctl.reject_writes.store(1, std::sync::atomic::Ordering::SeqCst);
            let r = if recs.len() == 1 { mgr.set(recs[0].clone()).await } else { mgr.batch_set(recs).await };
            db.ctl.reject_writes.store(0, std::sync::atomic::Ordering::SeqCst);
            if r.is_ok() {
                return Some(("rejected_write_reported_ok".into(), show(op)));
            }
            None
        }
        Op::CommitRejected => {
            db.ctl.reject_writes.store(1, std::sync::atomic::Ordering::SeqCst);
            let r = mgr.commit_transaction().await;
            db.ctl.reject_writes.store(0, std::sync::atomic::Ordering::SeqCst);
            m.store.pending.clear();
            m.store.active = false;
            if r.is_ok() {
                return Some(("rejected_commit_reported_ok".into(), String::new()));
            }
            if mgr.is_transaction_active() {
                // the caller (Directory::publish) rolls back after a failed commit
                let _ = mgr.rollback_transaction();
            }
            None
        }
        Op::Flush => {
            mgr.flush_cache().await;
            m.stale.clear();
            None
        }
        Op::Tombstone(u, e) => {
            let user = USERS[*u];
            let states = StoreModel::user_states(&m.store.view(), user);
            let r = mgr.tombstone_value_states(&AkdLabel(user.as_bytes().to_vec()), *e).await;
            if states.is_empty() {
                // absent user: an error is acceptable, nothing changes
                return None;
            }
            if let Err(err) = r {
                return Some(("tombstone_failed".into(), format!("{err:?}")));
            }
            for s in states {
                if s.epoch <= *e && !s.value.0.is_empty() {
                    let rec = vs_rec(user, s.epoch, s.version, true);
                    if !m.store.active {
                        m.stale.remove(&rec_key(&rec));
                    }
                    m.store.write(&rec);
                }
            }
            None
        }
        Op::ReadAzks => {
            let _ = mgr.get::<Azks>(&akd::append_only_zks::DEFAULT_AZKS_KEY).await;
            None
        }
        Op::ReadNode(i) => {
            let _ = mgr.get::<TreeNodeWithPreviousValue>(&NodeKey(node_label_of(*i))).await;
            None
        }
        Op::ReadBatchNodes => {
            let ks: Vec<NodeKey> = (0..2).map(|i| NodeKey(node_label_of(i))).collect();
            let _ = mgr.batch_get::<TreeNodeWithPreviousValue>(&ks).await;
            None
        }
        Op::ReadUserState(u) => {
            let _ = mgr.get_user_state(&AkdLabel(USERS[*u].as_bytes().to_vec()), ValueStateRetrievalFlag::MaxEpoch).await;
            None
        }
        Op::Advance(ms) => {
            crate::vclock::advance_ms(*ms);
            None
        }
        Op::DisableClean => {
            mgr.disable_cache_cleaning();
            None
        }
        Op::EnableClean => {
            mgr.enable_cache_cleaning();
            None
        }
        Op::ExternalAzks(e) => {
            let r = azks_rec(*e);
            m.stale.insert(rec_key(&r));
            m.store.committed.insert(rec_key(&r), r.clone());
            db.inner.set(r).await.unwrap();
            None
        }
        Op::ExternalNode(i, c) => {
            let r = node_rec(*i, *c);
            m.stale.insert(rec_key(&r));
            m.store.committed.insert(rec_key(&r), r.clone());
            db.inner.set(r).await.unwrap();
            None
        }
    }
}

async fn replay(cache: CacheCfg, hist: &[Op]) -> (GateDb, StorageManager<GateDb>, M16, Vec<(String, String)>) {
    crate::vclock::reset();
    let db = GateDb::new();
    let mgr = manager(&db, cache);
    let mut m = M16::default();
    let mut vs = vec![];
    for op in hist {
        if let Some(v) = apply(op, &db, &mgr, &mut m).await {
            vs.push(v);
        }
    }
    (db, mgr, m, vs)
}

/// the invariant: every read through the manager equals the pending transaction value or the
/// record the database holds at this moment (keys an external writer touched are exempt until
/// the next flush); get_direct always equals the database
async fn check_reads(rep: &Report, vname: &str, hshow: &dyn Fn() -> String, db: &GateDb, mgr: &StorageManager<GateDb>, m: &M16, n_nodes: usize) -> u64 {
    let mut n = 0;
    let opt = |r: Result<DbRecord, akd::errors::StorageError>| match r {
        Ok(r) => show_rec(&r),
        Err(akd::errors::StorageError::NotFound(_)) => "-".to_string(),
        Err(e) => format!("ERR({e:?})"),
    };
    // ground truth straight from the database object (and the model must agree with it)
    let dbmap: std::collections::BTreeMap<Vec<u8>, DbRecord> = db.dump().await.into_iter().collect();
    if dbmap != m.store.committed {
        rep.violation(
            format!("{vname}/database_differs_from_model"),
            json!({"history": hshow(), "db": dbmap.values().map(show_rec).collect::<Vec<_>>(), "model": m.store.committed.values().map(show_rec).collect::<Vec<_>>()}),
        );
    }
    let expect = |k: &[u8]| -> String {
        if m.store.active {
            if let Some(r) = m.store.pending.get(k) {
                return show_rec(r);
            }
        }
        dbmap.get(k).map(show_rec).unwrap_or("-".into())
    };
    let mut judge = |q: String, key: Vec<u8>, got: String, direct: bool| {
        n += 1;
        let want = if direct { dbmap.get(&key).map(show_rec).unwrap_or("-".into()) } else { expect(&key) };
        if got != want && (direct || !m.stale.contains(&key)) {
            let kind = if direct { "get_direct" } else { q.split('(').next().unwrap_or("get") };
            let class = match key.first() {
                Some(1) => "epoch_record",
                Some(2) => "tree_node",
                _ => "value_state",
            };
            rep.violation(
                format!("{vname}/read_differs_from_database/{kind}/{class}"),
                json!({"history": hshow(), "query": q, "got": got, "database_or_pending": want, "transaction_open": m.store.active, "virtual_ms": crate::vclock::now_ms()}),
            );
        }
    };
    let azk = Azks::get_full_binary_key_id(&akd::append_only_zks::DEFAULT_AZKS_KEY);
    judge("get(azks)".into(), azk.clone(), opt(mgr.get::<Azks>(&akd::append_only_zks::DEFAULT_AZKS_KEY).await), false);
    judge("get_direct(azks)".into(), azk.clone(), opt(mgr.get_direct::<Azks>(&akd::append_only_zks::DEFAULT_AZKS_KEY).await), true);
    let ks = keys(n_nodes.max(2));
    for k in &ks.nodes {
        let bk = TreeNodeWithPreviousValue::get_full_binary_key_id(k);
        judge(format!("get({})", short_key(&bk)), bk.clone(), opt(mgr.get::<TreeNodeWithPreviousValue>(k).await), false);
        judge(format!("get_direct({})", short_key(&bk)), bk.clone(), opt(mgr.get_direct::<TreeNodeWithPreviousValue>(k).await), true);
    }
    for k in ks.values.iter().filter(|k| k.0 == b"u1" || k.0 == b"u2") {
        let bk = ValueState::get_full_binary_key_id(k);
        judge(format!("get({})", short_key(&bk)), bk.clone(), opt(mgr.get::<ValueState>(k).await), false);
    }
    // batch_get of both node keys: each returned record judged individually
    if let Ok(rs) = mgr.batch_get::<TreeNodeWithPreviousValue>(&ks.nodes).await {
        let mut returned = BTreeSet::new();
        for r in rs {
            returned.insert(rec_key(&r));
            judge("batch_get(nodes)".into(), rec_key(&r), show_rec(&r), false);
        }
        for k in &ks.nodes {
            let bk = TreeNodeWithPreviousValue::get_full_binary_key_id(k);
            if !returned.contains(&bk) {
                judge("batch_get(nodes)".into(), bk, "-".into(), false);
            }
        }
    }
    n
}

fn bfs(args: &Args, rep: &Report, cache: CacheCfg, uni: &Uni, depth: usize, state_cap: usize, external: bool) {
    let ops = alphabet(uni, external);
    let seen: Mutex<HashSet<u128>> = Mutex::new(HashSet::new());
    let h128 = |s: &str| -> u128 { u128::from_le_bytes(blake3::hash(s.as_bytes()).as_bytes()[..16].try_into().unwrap()) };
    let mut frontier: Vec<Vec<Op>> = vec![vec![]];
    let vname = format!("{cache:?}{}", if external { "+external_writer" } else { "" });
    let (mut total_states, mut total_trans) = (0u64, 0u64);
    for d in 0..=depth {
        let next: Mutex<Vec<Vec<Op>>> = Mutex::new(vec![]);
        let new_states = std::sync::atomic::AtomicU64::new(0);
        let trans = std::sync::atomic::AtomicU64::new(0);
        crate::explore::par_for(args.threads, &frontier, |_, hist| {
            crate::vclock::enable();
            let rt = crate::gate::plain_runtime();
            rt.block_on(async {
                let (db, mgr, m, vs) = replay(cache, hist).await;
                let fp = format!(
                    "{}|S{:?}|M{}:{}|{}",
                    fingerprint(&db, &mgr).await,
                    m.stale,
                    m.store.active as u8,
                    m.store.committed.values().map(show_rec).collect::<Vec<_>>().join(";"),
                    m.store.pending.values().map(show_rec).collect::<Vec<_>>().join(";")
                );
                let hshow = || hist.iter().map(show).collect::<Vec<_>>().join(" ; ");
                if d > 0 {
                    trans.fetch_add(1, std::sync::atomic::Ordering::Relaxed);
                }
                // op contracts are properties of TRANSITIONS: judged before deduplication (a transition into
                // an already known state must not escape judgement)
                for (k, v) in vs {
                    rep.violation(format!("{vname}/op_contract/{k}"), json!({"history": hshow(), "detail": v}));
                }
                if !seen.lock().unwrap().insert(h128(&fp)) {
                    return;
                }
                new_states.fetch_add(1, std::sync::atomic::Ordering::Relaxed);
                // the invariant, evaluated on a fresh replay so that the reads do not disturb this state
                let (db2, mgr2, m2, _) = replay(cache, hist).await;
                let n = check_reads(rep, &vname, &hshow, &db2, &mgr2, &m2, uni.n_nodes).await;
                rep.eval(n);
                rep.distinct(fp);
                if d == depth && hist.iter().any(|o| matches!(o, Op::Advance(_))) && hist.iter().any(|o| matches!(o, Op::Rejected(_) | Op::CommitRejected)) {
                    rep.sample_cap(json!({"variant": vname, "history": hshow(), "reads_compared": n}), 6);
                }
                if d < depth {
                    let mut nx = next.lock().unwrap();
                    for op in &ops {
                        if enabled(op, &m) {
                            let mut h = hist.clone();
                            h.push(*op);
                            nx.push(h);
                        }
                    }
                }
            });
        });
        let ns = new_states.load(std::sync::atomic::Ordering::Relaxed);
        total_states += ns;
        total_trans += trans.load(std::sync::atomic::Ordering::Relaxed);
        rep.count(&format!("{vname}:new_states_at_depth_{d}"), ns);
        frontier = next.into_inner().unwrap();
        if total_states as usize > state_cap && d < depth {
            rep.cap_hit(format!("{vname}: state cap {state_cap} reached after depth {d}; deeper levels not explored"));
            break;
        }
    }
    rep.states(total_states, total_trans);
    rep.traces(total_states);
}

// ---------------------------------------------------------------------------------------------
// E2: concurrent tasks on one manager

#[derive(Clone, Debug)]
enum TOp {
    Get(usize),
    BatchGet,
    GetAzks,
    Set(usize, u64),
    SetAzks(u64),
    Txn(Vec<(usize, u64)>, u64),
    Flush,
}

fn show_t(op: &TOp) -> String {
    match op {
        TOp::Get(i) => format!("get(node{i})"),
        TOp::BatchGet => "batch_get(node0,node1)".into(),
        TOp::GetAzks => "get(azks)".into(),
        TOp::Set(i, c) => format!("set(node{i} e{c})"),
        TOp::SetAzks(e) => format!("set(azks e{e})"),
        TOp::Txn(ns, e) => format!("begin;{};set(azks e{e});commit", ns.iter().map(|(i, c)| format!("set(node{i} e{c})")).collect::<Vec<_>>().join(";")),
        TOp::Flush => "flush_cache".into(),
    }
}

async fn run_top(mgr: &StorageManager<GateDb>, op: &TOp) {
    match op {
        TOp::Get(i) => {
            let _ = mgr.get::<TreeNodeWithPreviousValue>(&NodeKey(node_label_of(*i))).await;
        }
        TOp::BatchGet => {
            let ks: Vec<NodeKey> = (0..2).map(|i| NodeKey(node_label_of(i))).collect();
            let _ = mgr.batch_get::<TreeNodeWithPreviousValue>(&ks).await;
        }
        TOp::GetAzks => {
            let _ = mgr.get::<Azks>(&akd::append_only_zks::DEFAULT_AZKS_KEY).await;
        }
        TOp::Set(i, c) => {
            let _ = mgr.set(node_rec(*i, *c)).await;
        }
        TOp::SetAzks(e) => {
            let _ = mgr.set(azks_rec(*e)).await;
        }
        TOp::Txn(ns, e) => {
            if mgr.begin_transaction() {
                for (i, c) in ns {
                    let _ = mgr.set(node_rec(*i, *c)).await;
                }
                let _ = mgr.set(azks_rec(*e)).await;
                let _ = mgr.commit_transaction().await;
            }
        }
        TOp::Flush => mgr.flush_cache().await,
    }
}

struct CScenario {
    name: &'static str,
    tasks: Vec<Vec<TOp>>,
}

fn conc_scenarios(quick: bool) -> Vec<CScenario> {
    let mut v = vec![
        CScenario { name: "reader_vs_writer_same_key", tasks: vec![vec![TOp::Get(0)], vec![TOp::Set(0, 2)]] },
        CScenario { name: "batch_reader_vs_writer", tasks: vec![vec![TOp::BatchGet], vec![TOp::Set(0, 2), TOp::Set(1, 2)]] },
        CScenario { name: "reader_vs_committing_transaction", tasks: vec![vec![TOp::Get(0), TOp::GetAzks], vec![TOp::Txn(vec![(0, 2)], 2)]] },
        CScenario { name: "reader_vs_flush", tasks: vec![vec![TOp::Get(0), TOp::Get(0)], vec![TOp::Flush]] },
        CScenario { name: "azks_reader_vs_writer", tasks: vec![vec![TOp::GetAzks], vec![TOp::SetAzks(2)]] },
    ];
    if !quick {
        v.push(CScenario { name: "two_readers_vs_writer", tasks: vec![vec![TOp::Get(0)], vec![TOp::BatchGet], vec![TOp::Set(0, 2)]] });
        v.push(CScenario { name: "reader_vs_writer_vs_flush", tasks: vec![vec![TOp::Get(0)], vec![TOp::Set(0, 2)], vec![TOp::Flush]] });
        v.push(CScenario { name: "reader_vs_two_writes", tasks: vec![vec![TOp::Get(0), TOp::Get(0)], vec![TOp::Set(0, 2), TOp::Set(0, 3)]] });
    }
    v
}

fn run_conc(rep: &Report, sc: &CScenario, cache_warm: bool, chooser: &mut Chooser) {
    let ch = std::mem::replace(chooser, Chooser::default_run());
    let sched = Sched::new(ch, false);
    sched.st.lock().unwrap().mode = Mode::Free;
    // the delivery of a database response is a scheduling point of its own
    sched.post_gates.store(true, std::sync::atomic::Ordering::SeqCst);
    let rt = controlled_runtime(sched.clone());
    let (db, mgr) = rt.block_on(async {
        let db = GateDb::new();
        *db.ctl.sched.lock().unwrap() = Some(sched.clone());
        let mgr = manager(&db, CacheCfg::Default);
        mgr.set(azks_rec(1)).await.unwrap();
        mgr.set(node_rec(0, 1)).await.unwrap();
        mgr.set(node_rec(1, 1)).await.unwrap();
        if !cache_warm {
            mgr.flush_cache().await;
        }
        sched.st.lock().unwrap().mode = Mode::Controlled;
        let mut hs = vec![];
        for (ti, ops) in sc.tasks.iter().cloned().enumerate() {
            let s2 = sched.clone();
            let m2 = mgr.clone();
            hs.push(tokio::spawn(async move {
                s2.name_task(&format!("T{ti}"));
                let _ = s2.park(OpDesc { kind: "start", detail: String::new(), is_write: false, is_commit: false }).await;
                for op in &ops {
                    run_top(&m2, op).await;
                }
            }));
        }
        for h in hs {
            let _ = tokio::time::timeout(tokio::time::Duration::from_secs(3600), h).await;
        }
        sched.drain().await;
        (db, mgr)
    });
    drop(rt);
    let steps: Vec<String>;
    {
        let mut st = sched.st.lock().unwrap();
        let names = st.task_names.clone();
        steps = st.steps.iter().map(|s| format!("{}{} {} {}", if s.preempt { "*" } else { " " }, names.get(s.task).cloned().unwrap_or_default(), s.desc.kind, s.desc.detail)).collect();
        *chooser = std::mem::replace(&mut st.chooser, Chooser::default_run());
    }
    *db.ctl.sched.lock().unwrap() = None;
    rep.states(steps.len() as u64, steps.len() as u64);
    rep.traces(1);
    // at the end (quiescence): every read through the manager equals the database
    let rt2 = crate::gate::plain_runtime();
    rt2.block_on(async {
        let dbmap: std::collections::BTreeMap<Vec<u8>, DbRecord> = db.dump().await.into_iter().collect();
        let mut outcome = vec![];
        let mut checks: Vec<(String, Vec<u8>, Result<DbRecord, akd::errors::StorageError>)> = vec![];
        let azk = Azks::get_full_binary_key_id(&akd::append_only_zks::DEFAULT_AZKS_KEY);
        checks.push(("get(azks)".into(), azk, mgr.get::<Azks>(&akd::append_only_zks::DEFAULT_AZKS_KEY).await));
        for i in 0..2 {
            let k = NodeKey(node_label_of(i));
            checks.push((format!("get(node{i})"), TreeNodeWithPreviousValue::get_full_binary_key_id(&k), mgr.get::<TreeNodeWithPreviousValue>(&k).await));
        }
        for (q, key, got) in checks {
            rep.eval(1);
            let got = got.map(|r| show_rec(&r)).unwrap_or("-".into());
            let want = dbmap.get(&key).map(show_rec).unwrap_or("-".into());
            outcome.push(format!("{q}={got}"));
            if got != want {
                let class = if key.first() == Some(&1) { "epoch_record" } else { "tree_node" };
                rep.violation(
                    format!("concurrent/{}/{}/stale_cache_entry_after_quiescence/{}", sc.name, if cache_warm { "warm" } else { "cold" }, class),
                    json!({"scenario": sc.tasks.iter().map(|t| t.iter().map(show_t).collect::<Vec<_>>()).collect::<Vec<_>>(), "query": q, "got": got, "database": want,
                           "choices": chooser.choices(), "preemptions": chooser.cost(), "schedule": steps}),
                );
            }
        }
        rep.distinct(format!("conc:{}:{}:{}", sc.name, cache_warm, outcome.join(",")));
    });
}

pub fn run(args: &Args) -> i32 {
    let rep = Report::new("C16", &args.tier, "model_checking");
    if !crate::vclock::self_check() {
        eprintln!("MACHINERY ERROR: virtual clock interposition not effective");
        return 2;
    }
    let quick = args.quick();
    let uni = if quick { Uni { n_nodes: 1, users: 1, max_epoch: 2 } } else { Uni { n_nodes: 2, users: 1, max_epoch: 2 } };
    // cache parameter variants: (item lifetime ms, memory limit, clean frequency ms)
    let variants: Vec<CacheCfg> = if quick {
        vec![CacheCfg::Default, CacheCfg::Custom(2, None, 2), CacheCfg::Custom(30_000, Some(300), 2)]
    } else {
        vec![
            CacheCfg::Default,
            CacheCfg::Custom(2, None, 2),
            CacheCfg::Custom(2, Some(300), 2),
            CacheCfg::Custom(30_000, Some(300), 2),
            CacheCfg::Custom(30_000, Some(2048), 2),
            CacheCfg::Custom(2, None, 15_000),
        ]
    };
    let (depth, cap) = if quick { (5, 1_500_000) } else { (6, 2_500_000) };
    for v in &variants {
        bfs(args, &rep, *v, &uni, depth, cap, false);
    }
    // external writer + flush clause (staleness is allowed until the flush)
    bfs(args, &rep, CacheCfg::Default, &uni, 5, cap, true);
    rep.extra("alphabet", json!(alphabet(&uni, true).iter().map(show).collect::<Vec<_>>()));
    // concurrent part
    let bound = if quick { 2 } else { 3 };
    for sc in conc_scenarios(quick) {
        for warm in [true, false] {
            let stats = explore(args.threads, bound, 500_000, |ch| run_conc(&rep, &sc, warm, ch));
            rep.count(&format!("concurrent:{}:{}:executions", sc.name, if warm { "warm" } else { "cold" }), stats.executions);
        }
    }
    rep.finish(
        "E3: explicit-state BFS over histories of one StorageManager with a cache (writes incl. writes the database rejects, transactions incl. a rejected commit batch, flush, tombstoning, cache-filling reads, virtual-clock advances 1/3/20/31000 ms, cleaning on/off; plus an external writer for the flush clause) for several (lifetime, memory limit, clean frequency) settings; exact fingerprints of database + transaction + cache entries with relative expiry; after every transition every get / batch_get / get_direct is compared with the database (or the pending value) on a fresh replay. E2: 2-3 tasks on one manager (reader vs writer, vs committing transaction, vs flush), all schedules within the preemption bound, same invariant at quiescence. distinct = distinct states / concurrent outcomes",
        &["virtual monotonic clock through clock_gettime interposition (self-checked on every run)", "single manager writes storage, except the explicitly modelled external writer whose keys are exempt until the next flush", "interleavings finer than storage-operation granularity are not explored"],
    )
}
