//! C10 — a publish that returns an error leaves the directory exactly as it was.
//!
//! Fault enumeration: for every (prefix history, next batch, manager variant) the fault-free
//! publish is run once to count its storage calls; then, for EVERY call index k, the same publish
//! is re-run on a fresh copy with call k failing (StorageError::Connection). Afterwards the same
//! instance and a fresh instance must serve the previous state only, no transaction may be left
//! open, and the same batch published again must end in the fault-free state.

use super::hist::*;
use crate::common::*;
use crate::gate::{GateDb, GateVrf};
use crate::model::*;
use crate::oracles::*;
use crate::report::Report;
use crate::Args;
use akd::append_only_zks::{AzksParallelismConfig, AzksParallelismOption};
use akd::directory::Directory;
use akd::AkdLabel;
use serde_json::json;

#[derive(Clone, Copy, Debug, PartialEq)]
pub enum MgrVariant {
    NoCache,
    Cache,
    CacheWarm,
}

struct Item {
    prefix: Vec<usize>,
    next: usize,
    variant: MgrVariant,
    double_fault: bool,
}

async fn setup<TC: ModelCfg>(base: &GateDb, variant: MgrVariant, model: &DirModel) -> (GateDb, akd::storage::StorageManager<GateDb>, Dir<TC>) {
    let db = base.fork().await;
    let mgr = manager(&db, if variant == MgrVariant::NoCache { CacheCfg::None } else { CacheCfg::Default });
    let dir = Directory::<TC, _, _>::new(mgr.clone(), GateVrf::new(), AzksParallelismConfig::disabled()).await.expect("Directory::new");
    if variant == MgrVariant::CacheWarm {
        for l in model.users.keys() {
            let _ = dir.lookup(AkdLabel(l.clone())).await;
        }
        if model.epoch >= 1 {
            let _ = dir.audit(0, model.epoch).await;
        }
    }
    (db, mgr, dir)
}

async fn after_failure<TC: ModelCfg>(
    rep: &Report,
    what: &str,
    hist: &dyn Fn() -> String,
    db: &GateDb,
    mgr: &akd::storage::StorageManager<GateDb>,
    dir: &Dir<TC>,
    model: &DirModel,
    published: &[D32],
    absent: &[Vec<u8>],
    variant: MgrVariant,
) {
    if mgr.is_transaction_active() {
        rep.violation(format!("{}/{:?}/transaction_left_open/{}", TC::NAME, variant, what), json!({"history": hist()}));
    }
    for b in reader_suite::<TC, _>(dir, model, published, absent, true).await {
        rep.violation(format!("{}/{:?}/same_instance_after_failed_publish/{}/{}", TC::NAME, variant, b.kind, what), json!({"history": hist(), "detail": b.detail}));
    }
    let fresh = new_dir::<TC>(db, &GateVrf::new(), CacheCfg::None, AzksParallelismConfig::disabled()).await;
    for b in reader_suite::<TC, _>(&fresh, model, published, absent, true).await {
        rep.violation(format!("{}/{:?}/fresh_instance_after_failed_publish/{}/{}", TC::NAME, variant, b.kind, what), json!({"history": hist(), "detail": b.detail}));
    }
}

fn op_class(desc: &crate::gate::OpDesc) -> String {
    if desc.is_commit {
        "commit_batch".into()
    } else {
        desc.kind.to_string()
    }
}

async fn run_item<TC: ModelCfg>(rep: &Report, alphabet: &[Batch], it: &Item) {
    let history: Vec<Batch> = it.prefix.iter().map(|&i| alphabet[i].clone()).collect();
    let next = &alphabet[it.next];
    let (base, model) = super::c06::replay_prefix::<TC>(&history).await;
    let mut model_new = model.clone();
    let expect = model_new.publish(next);
    let published: Vec<D32> = (0..=model.epoch).map(|e| model_root::<TC>(&model.as_of(e)).0).collect();
    let mut published_new = published.clone();
    if let MPublish::NewEpoch(_) = expect {
        published_new.push(model_root::<TC>(&model_new).0);
    }
    let absent: Vec<Vec<u8>> = next.iter().map(|(l, _)| l.clone()).filter(|l| !model.users.contains_key(l)).collect();
    // fault-free run: count and log the storage calls of this publish
    let (db0, _mgr0, dir0) = setup::<TC>(&base, it.variant, &model).await;
    db0.ctl.start_log();
    db0.ctl.arm(None);
    let r0 = dir0.publish(to_akd_batch(next)).await;
    let n = db0.ctl.disarm();
    let log = db0.ctl.take_log();
    if r0.is_err() {
        rep.violation(format!("{}/fault_free_publish_failed", TC::NAME), json!({"history": show_history(&history), "next": show_batch(next)}));
        return;
    }
    rep.distinct(format!("{}:{:?}:{}:{}:{}", TC::NAME, it.variant, show_history(&history), show_batch(next), n));
    // a follow-up batch different from the failed one (a value never used before), preferably on a
    // label the failed batch does not touch
    let al = crate::common::alphabet::<TC>();
    let pool: Vec<Vec<u8>> = alphabet.iter().flat_map(|b| b.iter().map(|(l, _)| l.clone())).chain(al.labels.iter().cloned()).collect();
    let alt_label = pool.iter().find(|l| !next.iter().any(|(nl, _)| nl == *l)).unwrap_or(&al.labels[0]).clone();
    let alt: Batch = vec![(alt_label, b"z".to_vec())];
    let mut model_alt = model.clone();
    let expect_alt = model_alt.publish(&alt);
    let mut published_alt = published.clone();
    if let MPublish::NewEpoch(_) = expect_alt {
        published_alt.push(model_root::<TC>(&model_alt).0);
    }
    for k2x in 0..2 * n {
        let k = k2x / 2;
        let follow_up_differs = k2x % 2 == 1;
        let what = op_class(&log[k]);
        let hist = || format!("{} ; THEN {} with storage call #{k} of {n} ({} {}) failing", show_history(&history), show_batch(next), log[k].kind, log[k].detail);
        let (db, mgr, dir) = setup::<TC>(&base, it.variant, &model).await;
        db.ctl.arm(Some(k));
        let r = dir.publish(to_akd_batch(next)).await;
        db.ctl.disarm();
        rep.eval(1);
        match r {
            Ok(eh) => {
                // the statement demands an error; tolerate nothing silently
                rep.violation(
                    format!("{}/{:?}/publish_succeeded_despite_storage_failure/{}", TC::NAME, it.variant, what),
                    json!({"history": hist(), "returned": [eh.0, hex::encode(eh.1)]}),
                );
                continue;
            }
            Err(_) => {}
        }
        after_failure::<TC>(rep, &what, &hist, &db, &mgr, &dir, &model, &published, &absent, it.variant).await;
        if it.double_fault {
            // a second failing publish (every index again would be quadratic: fail at k/2 and at the last call)
            for k2 in [k / 2, n - 1] {
                db.ctl.arm(Some(k2));
                let r2 = dir.publish(to_akd_batch(next)).await;
                let n2 = db.ctl.disarm();
                rep.eval(1);
                if r2.is_ok() && k2 < n2 {
                    // publish after a failed publish may legitimately make fewer calls (warmer cache); an Ok
                    // here means call k2 was never made or was tolerated
                    let made = n2;
                    if made > k2 {
                        rep.violation(format!("{}/{:?}/second_publish_succeeded_despite_storage_failure", TC::NAME, it.variant), json!({"history": hist(), "second_fault_at": k2}));
                    }
                    break;
                }
                if r2.is_err() {
                    let hist2 = || format!("{} ; THEN again with call #{k2} failing", hist());
                    after_failure::<TC>(rep, "second_fault", &hist2, &db, &mgr, &dir, &model, &published, &absent, it.variant).await;
                } else {
                    break;
                }
            }
        }
        // a later publish of the same batch succeeds and ends in the fault-free state
        let still_prev = dir.get_epoch_hash().await.map(|e| e.0 == model.epoch).unwrap_or(false);
        if !still_prev {
            continue; // already reported above (or the double-fault retry went through)
        }
        // continuation A: the same batch again; continuation B: a different batch — the directory must
        // end exactly where it would be had the failed call never been made
        let (next, expect, model_new, published_new) =
            if follow_up_differs { (&alt, &expect_alt, &model_alt, &published_alt) } else { (next, &expect, &model_new, &published_new) };
        let failed_only: Vec<Vec<u8>> = if follow_up_differs { absent.iter().filter(|l| !model_new.users.contains_key(*l)).cloned().collect() } else { vec![] };
        let r3 = dir.publish(to_akd_batch(next)).await;
        match (&r3, expect) {
            (Ok(eh), MPublish::NewEpoch(e)) if eh.0 == *e && eh.1 == published_new[*e as usize] => {}
            (Ok(eh), MPublish::NoChange) if eh.0 == model.epoch && eh.1 == published[model.epoch as usize] => {}
            _ => rep.violation(
                format!("{}/{:?}/later_publish_after_failed_publish_wrong/{}", TC::NAME, it.variant, what),
                json!({"history": hist(), "later_publish": show_batch(next), "result": format!("{r3:?}"), "expected": format!("{expect:?}")}),
            ),
        }
        let cont = if follow_up_differs { "different_batch" } else { "same_batch" };
        for b in reader_suite::<TC, _>(&dir, model_new, published_new, &failed_only, true).await {
            rep.violation(format!("{}/{:?}/same_instance_after_later_publish/{cont}/{}/{}", TC::NAME, it.variant, b.kind, what), json!({"history": hist(), "later_publish": show_batch(next), "detail": b.detail}));
        }
        let fresh = new_dir::<TC>(&db, &GateVrf::new(), CacheCfg::None, AzksParallelismConfig::disabled()).await;
        for b in reader_suite::<TC, _>(&fresh, model_new, published_new, &failed_only, true).await {
            rep.violation(format!("{}/{:?}/fresh_instance_after_later_publish/{cont}/{}/{}", TC::NAME, it.variant, b.kind, what), json!({"history": hist(), "later_publish": show_batch(next), "detail": b.detail}));
        }
        // storage holds no record the two publishes' model does not explain: compare with a directory
        // that never saw the failure
        {
            let clean = base.fork().await;
            let cd = new_dir::<TC>(&clean, &GateVrf::new(), CacheCfg::None, AzksParallelismConfig::disabled()).await;
            let _ = cd.publish(to_akd_batch(next)).await;
            if clean.dump().await != db.dump().await {
                rep.violation(format!("{}/{:?}/storage_differs_from_never_failed_directory/{cont}/{}", TC::NAME, it.variant, what), json!({"history": hist(), "later_publish": show_batch(next)}));
            }
        }
        if k == n / 2 {
            rep.sample_cap(json!({"cfg": TC::NAME, "variant": format!("{:?}", it.variant), "case": hist(), "calls_in_fault_free_publish": n}), 8);
        }
    }
}

fn run_cfg<TC: ModelCfg>(args: &Args, rep: &Report) {
    let quick = args.quick();
    run_alpha::<TC>(args, rep, base_alphabet::<TC>(), if quick { 1 } else { 2 }, false);
    // tree-shape alphabets (decompression with an insertion below the pushed-down node): depth-1 prefixes;
    // quick: one orientation, two-label prefixes only
    for orient in 0..(if quick { 1 } else { 2 }) {
        run_alpha::<TC>(args, rep, shape_batches::<TC>(orient), 1, quick);
    }
}

fn run_alpha<TC: ModelCfg>(args: &Args, rep: &Report, alphabet: Vec<Batch>, depth: usize, pairs_only: bool) {
    let quick = args.quick();
    let mut prefixes: Vec<Vec<usize>> = vec![vec![]];
    let mut frontier: Vec<Vec<usize>> = vec![vec![]];
    for _ in 0..depth {
        let mut next = vec![];
        for p in &frontier {
            for (i, b) in alphabet.iter().enumerate() {
                // prefixes: value x only (shape classes), non-empty
                if b.is_empty() || b.iter().any(|(_, v)| v == b"y") || (pairs_only && b.len() != 2) {
                    continue;
                }
                // depth-2 prefixes must extend the label set or nothing changes
                let mut q = p.clone();
                q.push(i);
                next.push(q);
            }
        }
        prefixes.extend(next.iter().cloned());
        frontier = next;
    }
    // drop prefixes whose last batch changed nothing
    prefixes.retain(|p| {
        let mut m = DirModel::default();
        let mut last_new = true;
        for &i in p {
            last_new = matches!(m.publish(&alphabet[i]), MPublish::NewEpoch(_));
        }
        last_new
    });
    let mut items = vec![];
    for p in &prefixes {
        for i in 0..alphabet.len() {
            for variant in [MgrVariant::NoCache, MgrVariant::Cache, MgrVariant::CacheWarm] {
                // quick: the crashing batch ranges over all 27 batches only for prefixes of <= 1 epoch
                items.push(Item { prefix: p.clone(), next: i, variant, double_fault: !quick && p.len() <= 1 });
            }
        }
    }
    let alphabet = &alphabet;
    crate::explore::par_for(args.threads, &items, |_, it| {
        let rt = crate::gate::plain_runtime();
        rt.block_on(run_item::<TC>(rep, alphabet, it));
    });
}

// ---- parallel insertion / preload: one publish whose subtasks run as separate tokio tasks, ONE failing
// storage call anywhere, all schedules within the preemption bound, detached tasks drained before judging
fn any_op(d: &crate::gate::OpDesc) -> bool {
    // every real storage call; not the synthetic start gate (failing it has no meaning)
    d.kind != "start" && d.kind != "vrf_key"
}

fn parallel_faults<TC: ModelCfg>(args: &Args, rep: &Report) {
    use crate::conc::*;
    use crate::explore::{explore, Chooser};
    // four labels whose version-1 node labels start with 00, 01, 10, 11 (tasks at two levels)
    let mut spread: Vec<Option<Vec<u8>>> = vec![None; 4];
    for i in 0..200 {
        let l = format!("p{i}").into_bytes();
        let nl = node_label::<TC>(&l, true, 1);
        let idx = (nl.label_val[0] >> 6) as usize;
        if spread[idx].is_none() {
            spread[idx] = Some(l);
        }
    }
    let ls: Vec<Vec<u8>> = spread.into_iter().map(|o| o.expect("label for every 2-bit prefix")).collect();
    let x = b"x".to_vec();
    let y = b"y".to_vec();
    let initial: Vec<Batch> = vec![ls.iter().map(|l| (l.clone(), x.clone())).collect()];
    let batch: Batch = ls.iter().map(|l| (l.clone(), y.clone())).collect();
    let mut model = DirModel::default();
    for b in &initial {
        model.publish(b);
    }
    let mut model_new = model.clone();
    model_new.publish(&batch);
    let published: Vec<D32> = (0..=model.epoch).map(|e| model_root::<TC>(&model.as_of(e)).0).collect();
    let published_new: Vec<D32> = (0..=model_new.epoch).map(|e| model_root::<TC>(&model_new.as_of(e)).0).collect();
    // storage before the publish (deterministic)
    let before = crate::gate::plain_runtime().block_on(async {
        let (db, _) = super::c06::replay_prefix::<TC>(&initial).await;
        db.dump().await
    });
    for (pname, par, cache) in [
        ("static2_nocache", AzksParallelismOption::Static(2), CacheCfg::None),
        ("static4_nocache", AzksParallelismOption::Static(4), CacheCfg::None),
        ("static4_cache_cold", AzksParallelismOption::Static(4), CacheCfg::Default),
    ] {
        let sc = Scenario {
            initial: initial.clone(),
            actors: vec![Actor { name: "P".into(), inst: Inst::Writer, ops: vec![Op::Publish(batch.clone())] }],
            writer_cache: cache,
            reader_cache: CacheCfg::None,
            par: AzksParallelismConfig { insertion: par, preload: par },
            reader_warmup: vec![],
            lag_publishes: vec![],
            poller: false,
            gate_vrf: false,
            post_gates: false,
            faults: 1,
            faultable: any_op,
            cold_writer_cache: cache != CacheCfg::None,
        };
        // deviation bound: the fault (1) plus preemptions
        let bound = if args.quick() { 2 } else { 3 };
        let stats = explore(args.threads, bound, if args.quick() { 40_000 } else { 800_000 }, |ch: &mut Chooser| {
            let out = run_scenario::<TC>(&sc, ch);
            rep.eval(1);
            let ident = |k: &str| format!("{}/parallel/{}/{}", TC::NAME, pname, k);
            let failed_step = out.steps.iter().find(|s| s.answer == crate::gate::Answer::Fail).map(|s| format!("{} {}", s.desc.kind, s.desc.detail));
            let detail = |e: serde_json::Value| json!({"choices": ch.choices(), "deviations": ch.cost(), "failed_call": failed_step, "schedule": show_steps(&out), "observed": e});
            if out.horizon {
                rep.violation(ident("deadlock_or_horizon"), detail(json!({})));
                return;
            }
            let Some((OpResult::Publish(r), _, _)) = out.results[0].first() else { return };
            let rt = crate::gate::plain_runtime();
            rt.block_on(async {
                match (r, &failed_step) {
                    (Ok(eh), None) => {
                        if eh.0 != model_new.epoch || eh.1 != published_new[model_new.epoch as usize] {
                            rep.violation(ident("fault_free_schedule_wrong_result"), detail(json!({"got": format!("{eh:?}")})));
                        }
                    }
                    (Ok(eh), Some(_)) => rep.violation(ident("publish_succeeded_despite_storage_failure"), detail(json!({"got": format!("{eh:?}")}))),
                    (Err(_), None) => rep.violation(ident("publish_failed_without_fault"), detail(json!({"error": format!("{r:?}")}))),
                    (Err(_), Some(_)) => {
                        rep.distinct(format!("{}:{}:{}", TC::NAME, pname, failed_step.clone().unwrap()));
                        // detached subtasks have been drained: nothing of the failed epoch may have reached storage
                        if out.writer_mgr.is_transaction_active() {
                            rep.violation(ident("transaction_left_open"), detail(json!({})));
                        }
                        if out.db.dump().await != before {
                            rep.violation(ident("storage_changed_by_failed_publish"), detail(json!({"note": "records written after the rollback (e.g. by a subtask that was still running)"})));
                        }
                        let same = Directory::<TC, _, _>::new(out.writer_mgr.clone(), out.vrf.clone(), AzksParallelismConfig::disabled()).await.unwrap();
                        for b in reader_suite::<TC, _>(&same, &model, &published, &[], true).await {
                            rep.violation(ident(&format!("same_manager_after_failed_publish/{}", b.kind)), detail(json!({"detail": b.detail})));
                        }
                        // a later publish succeeds and ends in the fault-free state
                        match same.publish(to_akd_batch(&batch)).await {
                            Ok(eh) if eh.0 == model_new.epoch && eh.1 == published_new[model_new.epoch as usize] => {
                                let fresh = new_dir::<TC>(&out.db, &out.vrf, CacheCfg::None, AzksParallelismConfig::disabled()).await;
                                for b in reader_suite::<TC, _>(&fresh, &model_new, &published_new, &[], true).await {
                                    rep.violation(ident(&format!("fresh_instance_after_retry/{}", b.kind)), detail(json!({"detail": b.detail})));
                                }
                            }
                            other => rep.violation(ident("retry_after_failed_publish_wrong"), detail(json!({"retry": format!("{other:?}")}))),
                        }
                    }
                }
            });
        });
        rep.count(&format!("{}:parallel:{}:executions", TC::NAME, pname), stats.executions);
        if stats.capped {
            rep.cap_hit(format!("{} parallel {} cap hit at bound {}", TC::NAME, pname, bound));
        }
    }
}

pub fn run(args: &Args) -> i32 {
    let rep = Report::new("C10", &args.tier, "fault_enumeration");
    run_cfg::<W>(args, &rep);
    run_cfg::<E>(args, &rep);
    parallel_faults::<W>(args, &rep);
    if !args.quick() {
        parallel_faults::<E>(args, &rep);
    }
    rep.finish(
        "one evaluation = one publish with exactly one storage call (index k of the fault-free run, every k) failing, for prefix histories over the x-valued batches (depth 1 quick / 2 thorough) x every next batch of the 27-batch alphabet, and depth-1 prefixes over the tree-shape alphabets x every shape batch, x manager {no cache, default cache, cache warmed by lookups+audit}; thorough adds a second failing publish before the successful one. Oracle: Err returned; same and fresh instance serve the previous state (reader suite vs DirModel), no open transaction; retry reaches the fault-free state. distinct = distinct (configuration, variant, prefix, batch, number of storage calls)",
        &["a failing storage call fails as a whole (no partial effect)", "sequential insertion here; parallel insertion with detached tasks is explored by the scheduler-based part", "blake3 collision resistance"],
    )
}
