//! C09 — an accepted audit proof implies nothing committed earlier was removed or altered.
//!
//! The dishonest server starts from the real tree over a leaf set S (root hash h_s) and may hand
//! the auditor ANY `unchanged` subset of the real nodes of that tree and ANY `inserted` set drawn
//! from a pool (leaves with original or replaced commitments for every universe label — including
//! labels already in S — and interior labels of the tree). The end hash is "chosen by the
//! server": it is set to whatever the auditor's own tree build computes, so the second check
//! always passes and acceptance hinges on the first. Oracle (semantic): accepted  =>  the end
//! hash is the canonical-trie hash of S plus some of the inserted leaves (a superset of S,
//! nothing re-dated or replaced), and the node set is prefix-free.

use super::c01::{leaf_commitment, universe8};
use super::hist::*;
use crate::common::*;
use crate::gate::GateDb;
use crate::model::*;
use crate::report::Report;
use crate::Args;
use akd::append_only_zks::{Azks, AzksParallelismConfig, InsertMode};
use akd::auditor::{audit_verify, verify_consecutive_append_only};
use akd::storage::memory::AsyncInMemoryDatabase;
use akd::storage::StorageManager;
use akd::{AppendOnlyProof, AzksElement, AzksValue, SingleAppendOnlyProof};
use serde_json::json;

/// harness copy of the auditor's tree build (public API only): the hash the auditor computes
/// for a node set. Used to let the server "choose" the end hash and to pre-filter start sets;
/// the verdict itself always comes from the real verify_consecutive_append_only.
async fn auditor_hash<TC: ModelCfg>(nodes: Vec<AzksElement>, latest_epoch: Option<u64>) -> Option<D32> {
    let mgr = StorageManager::new_no_cache(AsyncInMemoryDatabase::new_with_remove_child_nodes_on_insertion());
    let mut azks = Azks::new::<TC, _>(&mgr).await.ok()?;
    if let Some(e) = latest_epoch {
        azks.latest_epoch = e;
    }
    azks.batch_insert_nodes::<TC, _>(&mgr, nodes, InsertMode::Auditor, AzksParallelismConfig::disabled()).await.ok()?;
    azks.get_root_hash::<TC, _>(&mgr).await.ok()
}

fn prefix_free(labels: &[Bits]) -> bool {
    for i in 0..labels.len() {
        for j in 0..labels.len() {
            if i != j && labels[i].is_prefix_of(&labels[j]) {
                return false;
            }
        }
    }
    true
}

fn alt_commitment(i: usize) -> D32 {
    *blake3::hash(format!("akdmc replaced leaf {i}").as_bytes()).as_bytes()
}

fn subsets_upto(n: usize, k: usize) -> Vec<Vec<usize>> {
    fn rec(start: usize, n: usize, k: usize, cur: &mut Vec<usize>, out: &mut Vec<Vec<usize>>) {
        out.push(cur.clone());
        if cur.len() == k {
            return;
        }
        for i in start..n {
            cur.push(i);
            rec(i + 1, n, k, cur, out);
            cur.pop();
        }
    }
    let mut out = vec![];
    rec(0, n, k, &mut vec![], &mut out);
    out
}

async fn run_set<TC: ModelCfg>(rep: &Report, set: &[usize], max_inserted: usize) {
    let uni: Vec<Bits> = universe8()[..6].to_vec();
    let start_epoch = 2u64;
    let end_epoch = 3u64;
    // S: members alternate between epoch 1 and epoch 2
    let leaves: Vec<MLeaf> = set
        .iter()
        .enumerate()
        .map(|(k, &i)| MLeaf { label: uni[i].clone(), commitment: leaf_commitment(i), epoch: 1 + (k as u64 % 2) })
        .collect();
    let tree = trie::<TC>(&leaves);
    let h_s = tree.root_hash;
    let nodes = tree.nodes();
    let node_elems: Vec<AzksElement> = nodes.iter().map(|n| AzksElement { label: bits_nl(&n.label), value: AzksValue(n.value) }).collect();
    // pool of inserted candidates
    let mut pool: Vec<(String, AzksElement, Option<usize>, bool)> = vec![]; // (name, element, universe index if leaf, original commitment?)
    for i in 0..6 {
        pool.push((format!("leaf{i}"), AzksElement { label: bits_nl(&uni[i]), value: AzksValue(leaf_commitment(i)) }, Some(i), true));
        pool.push((format!("leaf{i}'"), AzksElement { label: bits_nl(&uni[i]), value: AzksValue(alt_commitment(i)) }, Some(i), false));
    }
    for n in nodes.iter().filter(|n| !n.is_leaf) {
        pool.push((format!("interior[{}]", n.label.show()), AzksElement { label: bits_nl(&n.label), value: AzksValue(n.value) }, None, true));
    }
    let ins_subsets = subsets_upto(pool.len(), max_inserted);
    let desc = format!("S={:?}", set);
    // every subset of the real nodes as `unchanged`
    for umask in 0u32..(1u32 << nodes.len()) {
        let u_idx: Vec<usize> = (0..nodes.len()).filter(|i| umask & (1 << i) != 0).collect();
        let unchanged: Vec<AzksElement> = u_idx.iter().map(|&i| node_elems[i]).collect();
        rep.eval(1);
        let u_labels: Vec<Bits> = u_idx.iter().map(|&i| nodes[i].label.clone()).collect();
        // does the REAL auditor accept this unchanged set for h_s (nothing inserted, end hash as it will compute it)?
        let proof0 = SingleAppendOnlyProof { inserted: vec![], unchanged_nodes: unchanged.clone() };
        let h_e0 = auditor_hash::<TC>(unchanged.clone(), Some(end_epoch - 1)).await.unwrap_or([0u8; 32]);
        let start_ok = verify_consecutive_append_only::<TC>(&proof0, h_s, h_e0, end_epoch).await.is_ok();
        let replica_start_ok = auditor_hash::<TC>(unchanged.clone(), None).await == Some(h_s);
        if prefix_free(&u_labels) && start_ok != replica_start_ok {
            // on well-formed sets the harness copy of the tree build must agree with the real auditor
            rep.violation(format!("{}/machinery/replica_start_check_disagrees_with_auditor", TC::NAME), json!({"set": desc, "unchanged": u_labels.iter().map(|l| l.show()).collect::<Vec<_>>()}));
        }
        if !start_ok {
            continue;
        }
        if !prefix_free(&u_labels) {
            rep.violation(
                format!("{}/start_hash_accepts_overlapping_unchanged_set", TC::NAME),
                json!({"set": desc, "unchanged": u_labels.iter().map(|l| l.show()).collect::<Vec<_>>()}),
            );
        }
        rep.count("start_sets_reproducing_h_s", 1);
        for ins in ins_subsets.iter() {
            let inserted: Vec<AzksElement> = ins.iter().map(|&i| pool[i].1).collect();
            let proof = SingleAppendOnlyProof { inserted: inserted.clone(), unchanged_nodes: unchanged.clone() };
            // the server chooses the end hash: whatever the auditor will compute
            let mut all = unchanged.clone();
            all.extend(inserted.iter().map(|x| AzksElement { label: x.label, value: AzksValue(TC::hash_leaf_with_commitment(x.value, end_epoch).0) }));
            let Some(h_e) = auditor_hash::<TC>(all, Some(end_epoch - 1)).await else { continue };
            rep.eval(1);
            let accepted = verify_consecutive_append_only::<TC>(&proof, h_s, h_e, end_epoch).await.is_ok();
            if !accepted {
                let mut all_labels = u_labels.clone();
                all_labels.extend(ins.iter().map(|&i| nl_bits(&pool[i].1.label)));
                if prefix_free(&all_labels) {
                    // well-formed set, start accepted, end hash computed by the harness copy of the tree
                    // build: the real auditor must agree, or the copy is not faithful
                    rep.violation(
                        format!("{}/machinery/replica_disagrees_with_auditor", TC::NAME),
                        json!({"set": desc, "inserted": ins.iter().map(|&i| pool[i].0.clone()).collect::<Vec<_>>()}),
                    );
                } else {
                    rep.count("overlapping_node_sets_rejected", 1);
                }
                continue;
            }
            // the server names a DIFFERENT end hash than the one the node sets produce (one byte flipped; the root of
            // S with its first leaf pruned): the step must be rejected whatever the node sets are (also with nothing inserted)
            {
                let mut flipped = h_e;
                flipped[31] ^= 1;
                let pruned = if leaves.len() > 1 { trie::<TC>(&leaves[1..].to_vec()).root_hash } else { [0x5au8; 32] };
                for (what, h_alt) in [("one_byte_flipped", flipped), ("root_of_pruned_tree", pruned)] {
                    if h_alt == h_e {
                        continue;
                    }
                    rep.eval(1);
                    if verify_consecutive_append_only::<TC>(&proof, h_s, h_alt, end_epoch).await.is_ok() {
                        rep.violation(
                            format!("{}/end_hash_not_bound_to_node_sets/{}/inserted_{}", TC::NAME, what, ins.len()),
                            json!({"set": desc, "unchanged": u_labels.iter().map(|l| l.show()).collect::<Vec<_>>(),
                                   "inserted": ins.iter().map(|&i| pool[i].0.clone()).collect::<Vec<_>>(), "end_hash": hex::encode(h_alt)}),
                        );
                    }
                }
            }
            // semantic oracle: h_e must commit to S plus some subset J of the inserted leaves
            let ins_leaves: Vec<(usize, bool)> = ins.iter().filter_map(|&i| pool[i].2.map(|u| (u, pool[i].3))).collect();
            let mut superset = false;
            for jmask in 0u32..(1u32 << ins_leaves.len()) {
                let mut x = leaves.clone();
                let mut ok = true;
                for (k, (u, orig)) in ins_leaves.iter().enumerate() {
                    if jmask & (1 << k) != 0 {
                        if x.iter().any(|l| l.label == uni[*u]) {
                            ok = false; // would re-date or replace a leaf of S (or duplicate)
                            break;
                        }
                        x.push(MLeaf { label: uni[*u].clone(), commitment: if *orig { leaf_commitment(*u) } else { alt_commitment(*u) }, epoch: end_epoch });
                    }
                }
                if ok && trie::<TC>(&x).root_hash == h_e {
                    superset = true;
                    break;
                }
            }
            let mut all_labels = u_labels.clone();
            all_labels.extend(ins.iter().map(|&i| nl_bits(&pool[i].1.label)));
            let names: Vec<String> = ins.iter().map(|&i| pool[i].0.clone()).collect();
            let kind_of = |names: &Vec<String>| -> &'static str {
                if names.iter().any(|n| n.starts_with("interior")) {
                    "interior_label_inserted"
                } else {
                    "leaf_labels_only"
                }
            };
            if !superset {
                rep.violation(
                    format!("{}/accepted_end_hash_does_not_commit_a_superset/{}", TC::NAME, kind_of(&names)),
                    json!({"set": desc, "unchanged": u_labels.iter().map(|l| l.show()).collect::<Vec<_>>(), "inserted": names,
                           "note": "audit accepted h_s -> h_e although h_e is not the hash of S plus inserted leaves: a committed leaf was removed, replaced or re-dated"}),
                );
            } else if !prefix_free(&all_labels) {
                rep.violation(
                    format!("{}/accepted_overlapping_node_set/{}", TC::NAME, kind_of(&names)),
                    json!({"set": desc, "unchanged": u_labels.iter().map(|l| l.show()).collect::<Vec<_>>(), "inserted": names}),
                );
            } else {
                rep.distinct(format!("{}:{}:{:#b}:{}", TC::NAME, desc, umask, names.join("+")));
            }
        }
    }
    let _ = start_epoch;
}

/// honest proofs from the real generator, and list-level tampering of multi-epoch proofs
struct V9<'r> {
    rep: &'r Report,
}

impl<'r, TC: ModelCfg> HistVisitor<TC> for V9<'r> {
    fn visit<'a>(&'a self, ctx: &'a HistCtx<TC>) -> std::pin::Pin<Box<dyn std::future::Future<Output = ()> + 'a>> {
        Box::pin(async move {
            if !matches!(ctx.last, Some(MPublish::NewEpoch(_))) || ctx.model.epoch < 2 {
                return;
            }
            let dir = new_dir::<TC>(&ctx.db, &ctx.vrf, CacheCfg::None, AzksParallelismConfig::disabled()).await;
            let cur = ctx.model.epoch;
            let hist = || show_history(&ctx.history);
            for s in 0..cur {
                for e in s + 1..=cur {
                    let Ok(proof) = dir.audit(s, e).await else { continue };
                    let hashes: Vec<D32> = ctx.published[s as usize..=e as usize].to_vec();
                    self.rep.eval(1);
                    if audit_verify::<TC>(hashes.clone(), proof.clone()).await.is_err() {
                        self.rep.violation(format!("{}/honest_audit_rejected", TC::NAME), json!({"history": hist(), "range": [s, e]}));
                        continue;
                    }
                    let mut tampered: Vec<(&str, Vec<D32>, AppendOnlyProof)> = vec![];
                    // replace each hash by a different value (another epoch's hash, and a bit flip)
                    for i in 0..hashes.len() {
                        let mut h = hashes.clone();
                        h[i][0] ^= 1;
                        tampered.push(("hash_bit_flipped", h, proof.clone()));
                        for (j, other) in ctx.published.iter().enumerate() {
                            if *other != hashes[i] {
                                let mut h = hashes.clone();
                                h[i] = *other;
                                let _ = j;
                                tampered.push(("hash_replaced_by_other_epoch", h, proof.clone()));
                            }
                        }
                    }
                    // inconsistent list lengths
                    let mut h = hashes.clone();
                    h.pop();
                    tampered.push(("hash_list_shortened", h, proof.clone()));
                    let mut h = hashes.clone();
                    h.push(*hashes.last().unwrap());
                    tampered.push(("hash_list_lengthened", h, proof.clone()));
                    let mut p = proof.clone();
                    p.epochs.pop();
                    tampered.push(("epoch_list_shortened", hashes.clone(), p));
                    let mut p = proof.clone();
                    p.proofs.pop();
                    tampered.push(("proof_list_shortened", hashes.clone(), p));
                    let mut p = proof.clone();
                    p.epochs.pop();
                    p.proofs.pop();
                    tampered.push(("both_lists_shortened", hashes.clone(), p));
                    if proof.proofs.len() >= 2 {
                        let mut p = proof.clone();
                        p.proofs.swap(0, 1);
                        tampered.push(("proofs_permuted", hashes.clone(), p));
                        let mut p = proof.clone();
                        p.epochs.swap(0, 1);
                        tampered.push(("epochs_permuted", hashes.clone(), p));
                        let mut p = proof.clone();
                        p.epochs.swap(0, 1);
                        p.proofs.swap(0, 1);
                        tampered.push(("epochs_and_proofs_permuted", hashes.clone(), p));
                    }
                    // a forged LATER step: the step's unchanged nodes are dropped / taken from the first step, the
                    // end hash of that step is whatever the auditor computes for the forged node set, and the audit
                    // is cut after that step
                    for i in 1..proof.proofs.len() {
                        let end_epoch = proof.epochs[i] + 1;
                        for (vname, unchanged) in [("emptied", vec![]), ("of_first_step", proof.proofs[0].unchanged_nodes.clone())] {
                            let forged = SingleAppendOnlyProof { inserted: proof.proofs[i].inserted.clone(), unchanged_nodes: unchanged.clone() };
                            let mut all = unchanged.clone();
                            all.extend(forged.inserted.iter().map(|x| AzksElement { label: x.label, value: AzksValue(TC::hash_leaf_with_commitment(x.value, end_epoch).0) }));
                            let Some(h_forged) = auditor_hash::<TC>(all, Some(end_epoch - 1)).await else { continue };
                            if h_forged == hashes[i + 1] {
                                continue; // nothing was forged (e.g. the step really had no unchanged nodes)
                            }
                            let mut p = proof.clone();
                            p.proofs.truncate(i + 1);
                            p.epochs.truncate(i + 1);
                            p.proofs[i] = forged;
                            let mut h = hashes[..=i + 1].to_vec();
                            h[i + 1] = h_forged;
                            tampered.push((if vname == "emptied" { "later_step_forged_unchanged_emptied" } else { "later_step_forged_unchanged_of_first_step" }, h, p));
                        }
                    }
                    // wrong epoch labels
                    let mut p = proof.clone();
                    for ep in p.epochs.iter_mut() {
                        *ep += 1;
                    }
                    tampered.push(("epochs_shifted", hashes.clone(), p));
                    for (name, h, p) in tampered {
                        self.rep.eval(1);
                        if audit_verify::<TC>(h, p).await.is_ok() {
                            self.rep.violation(format!("{}/tampered_audit_accepted/{}", TC::NAME, name), json!({"history": hist(), "range": [s, e]}));
                        }
                    }
                    self.rep.distinct(format!("{}:honest:{}:{}..{}", TC::NAME, hist(), s, e));
                }
            }
        })
    }
}

fn run_cfg<TC: ModelCfg>(args: &Args, rep: &Report) {
    let max_size = if args.quick() { 3 } else { 4 };
    let max_inserted = if args.quick() { 2 } else { 3 };
    let mut sets: Vec<Vec<usize>> = vec![];
    for mask in 0u32..64 {
        let s: Vec<usize> = (0..6).filter(|i| mask & (1 << i) != 0).collect();
        if s.len() <= max_size {
            sets.push(s);
        }
    }
    crate::explore::par_for(args.threads, &sets, |_, set| {
        let rt = crate::gate::plain_runtime();
        rt.block_on(run_set::<TC>(rep, set, max_inserted));
    });
    rep.sample(json!({"cfg": TC::NAME, "leaf_sets": sets.len(), "example": "S=[0,2,3]: unchanged = every subset of the real nodes of tree(S); inserted = every <=k-subset of {leaf_i, leaf_i' (replaced commitment) for i in 0..6} + interior labels"}));
}

pub fn run(args: &Args) -> i32 {
    let rep = Report::new("C09", &args.tier, "exploration");
    run_cfg::<W>(args, &rep);
    run_cfg::<E>(args, &rep);
    let plan = if args.quick() {
        Plan { base_depth: 2, ext_depth: 0, chains: vec![(5, 1)], shape_depth: 2, cache: CacheCfg::None, par: AzksParallelismConfig::disabled() }
    } else {
        Plan { base_depth: 3, ext_depth: 2, chains: vec![(9, 1)], shape_depth: 2, cache: CacheCfg::None, par: AzksParallelismConfig::disabled() }
    };
    let v = V9 { rep: &rep };
    run_plan(args.threads, &plan, &v);
    rep.finish(
        "tree level: every leaf set S (|S| <= 3 quick / 4 thorough) of a 6-label adversarial-prefix universe x EVERY subset of the real nodes of tree(S) as `unchanged` x every <=2 (thorough 3)-subset of an inserted pool (original and replaced-commitment leaves for all 6 labels, interior labels); end hash chosen by the server; verdict from the real verify_consecutive_append_only; oracle: accepted => end hash = canonical trie of S plus some inserted leaves, node set prefix-free. History level: honest audits for every range of the bounded histories verify, and every list-level tampering (each hash replaced, lists shortened/lengthened/permuted, epochs shifted) is rejected. distinct = distinct accepted well-formed (set, unchanged, inserted) proofs and honest ranges",
        &["blake3 collision resistance", "the harness copy of the auditor's tree build is used only to pick the server's end hash and is cross-checked against the real auditor's verdict on every candidate"],
    )
}
