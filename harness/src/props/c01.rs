//! C01 — each epoch's root hash is determined by the publish history alone.

use super::hist::*;
use crate::common::*;
use crate::gate::GateDb;
use crate::model::*;
use crate::report::Report;
use crate::Args;
use akd::append_only_zks::{Azks, AzksParallelismConfig, InsertMode};
use akd::storage::types::DbRecord;
use akd::storage::Database;
use akd::{AzksElement, AzksValue};
use serde_json::json;
use std::future::Future;
use std::pin::Pin;

struct V1<'r> {
    rep: &'r Report,
}

fn ident(cfg: &str, kind: &str, last: &MPublish) -> String {
    format!("{cfg}/{kind}/{last:?}")
        .replace(|c: char| c.is_ascii_digit(), "#")
}

impl<'r, TC: ModelCfg> HistVisitor<TC> for V1<'r> {
    fn visit<'a>(&'a self, ctx: &'a HistCtx<TC>) -> Pin<Box<dyn Future<Output = ()> + 'a>> {
        Box::pin(async move {
            // at every node: a fresh instance over the stored state reports (model epoch, model hash)
            let dir = new_dir::<TC>(&ctx.db, &ctx.vrf, CacheCfg::None, AzksParallelismConfig::disabled()).await;
            let (mroot, mnodes) = model_root::<TC>(&ctx.model);
            self.rep.eval(1);
            match dir.get_epoch_hash().await {
                Ok(eh) => {
                    if eh.0 != ctx.model.epoch || eh.1 != mroot {
                        self.rep.violation(
                            format!("{}/get_epoch_hash_mismatch", TC::NAME),
                            json!({"history": show_history(&ctx.history), "got": [eh.0, hex::encode(eh.1)], "model": [ctx.model.epoch, hex::encode(mroot)]}),
                        );
                    }
                }
                Err(e) => self.rep.violation(
                    format!("{}/get_epoch_hash_error", TC::NAME),
                    json!({"history": show_history(&ctx.history), "error": format!("{e:?}")}),
                ),
            }
            // stored node count equals the canonical trie's node count
            if let Ok(DbRecord::Azks(az)) = ctx.db.inner.get::<Azks>(&akd::append_only_zks::DEFAULT_AZKS_KEY).await {
                if az.latest_epoch != ctx.model.epoch {
                    self.rep.violation(
                        format!("{}/stored_epoch_record_mismatch", TC::NAME),
                        json!({"history": show_history(&ctx.history), "stored_epoch": az.latest_epoch, "model_epoch": ctx.model.epoch}),
                    );
                }
                if az.num_nodes != mnodes {
                    // the node counter is bookkeeping, not part of the property: reported, never judged
                    self.rep.count("node_counter_differs_from_canonical_trie_node_count", 1);
                }
            }
            if ctx.model.epoch >= 1 {
                self.rep.distinct(format!("{}:{}", TC::NAME, hex::encode(&mroot[..8])));
            }
        })
    }

    fn on_publish<'a>(&'a self, ev: &'a PubEvent<'a, TC>) -> Pin<Box<dyn Future<Output = ()> + 'a>> {
        Box::pin(async move {
            self.rep.eval(1);
            let hist = || format!("{} ; THEN {}", show_history(&ev.before.history), show_batch(ev.batch));
            let before = ev.before.db.dump().await;
            let after = ev.after_db.dump().await;
            match ev.expect {
                MPublish::Rejected => {
                    if ev.result.is_ok() {
                        self.rep.violation(ident(TC::NAME, "repeated_label_accepted", ev.expect), json!({"history": hist()}));
                    }
                    if before != after {
                        self.rep.violation(ident(TC::NAME, "rejected_batch_changed_storage", ev.expect), json!({"history": hist()}));
                    }
                }
                MPublish::NoChange => {
                    let e = ev.before.model.epoch;
                    match ev.result {
                        Ok(eh) => {
                            if eh.0 != e || eh.1 != ev.before.published[e as usize] {
                                self.rep.violation(
                                    ident(TC::NAME, "noop_publish_changed_epoch_hash", ev.expect),
                                    json!({"history": hist(), "got": [eh.0, hex::encode(eh.1)], "expected_epoch": e}),
                                );
                            }
                        }
                        Err(err) => self.rep.violation(
                            ident(TC::NAME, "noop_publish_failed", ev.expect),
                            json!({"history": hist(), "error": format!("{err:?}")}),
                        ),
                    }
                    if before != after {
                        self.rep.violation(ident(TC::NAME, "noop_publish_changed_storage", ev.expect), json!({"history": hist()}));
                    }
                }
                MPublish::NewEpoch(e) => {
                    let (mroot, _) = model_root::<TC>(ev.model_after);
                    match ev.result {
                        Ok(eh) => {
                            if eh.0 != *e {
                                self.rep.violation(
                                    ident(TC::NAME, "wrong_epoch_returned", ev.expect),
                                    json!({"history": hist(), "got": eh.0, "model": e}),
                                );
                            } else if eh.1 != mroot {
                                self.rep.violation(
                                    ident(TC::NAME, "root_hash_differs_from_canonical_trie", ev.expect),
                                    json!({"history": hist(), "got": hex::encode(eh.1), "model": hex::encode(mroot)}),
                                );
                            }
                            // the instance that published reports the same pair
                            match ev.dir.get_epoch_hash().await {
                                Ok(eh2) if eh2 == *eh => {}
                                other => self.rep.violation(
                                    ident(TC::NAME, "get_epoch_hash_after_publish_differs", ev.expect),
                                    json!({"history": hist(), "publish": format!("{eh:?}"), "get_epoch_hash": format!("{other:?}")}),
                                ),
                            }
                        }
                        Err(err) => self.rep.violation(
                            ident(TC::NAME, "publish_failed", ev.expect),
                            json!({"history": hist(), "error": format!("{err:?}")}),
                        ),
                    }
                }
            }
            self.rep.sample(json!({"cfg": TC::NAME, "history": hist(), "expect": format!("{:?}", ev.expect)}));
        })
    }
}

/// 8-label universe with adversarial shared prefixes: base label B and, for p in
/// {0,1,7,8,9,254,255}, a label that agrees with B on exactly its first p bits.
pub fn universe8() -> Vec<Bits> {
    let base = blake3::hash(b"akdmc universe base");
    let b = Bits::from_bytes(base.as_bytes(), 256);
    let mut out = vec![b.clone()];
    for p in [0usize, 1, 7, 8, 9, 254, 255] {
        let tail = blake3::hash(format!("akdmc universe tail {p}").as_bytes());
        let t = Bits::from_bytes(tail.as_bytes(), 256);
        let mut v = b.0[..p].to_vec();
        v.push(!b.0[p]);
        v.extend_from_slice(&t.0[p + 1..]);
        out.push(Bits(v));
    }
    out
}

pub fn leaf_commitment(i: usize) -> D32 {
    *blake3::hash(format!("akdmc leaf {i}").as_bytes()).as_bytes()
}

/// Tree level: every assignment of the 8 labels to {absent, epoch 1, epoch 2}: insert with the
/// real batch insertion (one batch per epoch) and compare the root hash with the trie model.
fn tree_level<TC: ModelCfg>(args: &Args, rep: &Report) {
    let uni = universe8();
    let n_assign = 3usize.pow(8);
    let items: Vec<usize> = (0..n_assign).collect();
    crate::explore::par_for(args.threads, &items, |_, &code| {
        let rt = crate::gate::plain_runtime();
        rt.block_on(async {
            let mut c = code;
            let mut e1 = vec![];
            let mut e2 = vec![];
            for i in 0..8 {
                match c % 3 {
                    1 => e1.push(i),
                    2 => e2.push(i),
                    _ => {}
                }
                c /= 3;
            }
            if e1.is_empty() && !e2.is_empty() {
                return; // same shapes as (e2, {}) shifted by an epoch; covered by histories
            }
            let db = GateDb::new();
            let mgr = manager(&db, CacheCfg::None);
            let mut azks = Azks::new::<TC, _>(&mgr).await.unwrap();
            let mut leaves: Vec<MLeaf> = vec![];
            for (epoch, set) in [(1u64, &e1), (2u64, &e2)] {
                if set.is_empty() {
                    continue;
                }
                let nodes: Vec<AzksElement> =
                    set.iter().map(|&i| AzksElement { label: bits_nl(&uni[i]), value: AzksValue(leaf_commitment(i)) }).collect();
                for &i in set.iter() {
                    leaves.push(MLeaf { label: uni[i].clone(), commitment: leaf_commitment(i), epoch });
                }
                let r = azks.batch_insert_nodes::<TC, _>(&mgr, nodes, InsertMode::Directory, AzksParallelismConfig::disabled()).await;
                rep.eval(1);
                if let Err(e) = r {
                    rep.violation(format!("{}/tree/insert_failed", TC::NAME), json!({"epoch1": e1, "epoch2": e2, "error": format!("{e:?}")}));
                    return;
                }
                let got = azks.get_root_hash::<TC, _>(&mgr).await;
                let t = trie::<TC>(&leaves);
                match got {
                    Ok(h) if h == t.root_hash => {
                        if azks.num_nodes != t.num_nodes {
                            rep.count("node_counter_differs_from_canonical_trie_node_count", 1);
                        }
                        rep.distinct(format!("{}:tree:{}", TC::NAME, hex::encode(&h[..8])));
                    }
                    other => rep.violation(
                        format!("{}/tree/root_or_count_differs", TC::NAME),
                        json!({"epoch1": e1, "epoch2": e2, "got": format!("{other:?}"), "num_nodes": azks.num_nodes,
                               "model": hex::encode(t.root_hash), "model_nodes": t.num_nodes}),
                    ),
                }
            }
        });
    });
    rep.count("tree_level_assignments", n_assign as u64);
}

pub fn run(args: &Args) -> i32 {
    let rep = Report::new("C01", &args.tier, "exploration");
    let plan = if args.quick() {
        Plan { base_depth: 3, ext_depth: 2, chains: vec![(17, 1)], shape_depth: 2, cache: CacheCfg::None, par: AzksParallelismConfig::disabled() }
    } else {
        Plan { base_depth: 3, ext_depth: 3, chains: vec![(33, 2)], shape_depth: 2, cache: CacheCfg::None, par: AzksParallelismConfig::disabled() }
    };
    let v = V1 { rep: &rep };
    run_plan(args.threads, &plan, &v);
    tree_level::<W>(args, &rep);
    tree_level::<E>(args, &rep);
    rep.extra("plan", json!(plan_note(&plan)));
    rep.finish(
        "every publish along every history of the plan is one evaluation (real Directory::publish vs DirModel + from-scratch blake3 trie); plus every assignment of an 8-label adversarial-prefix universe to {absent, epoch 1, epoch 2} inserted with the real batch insertion. distinct = distinct (configuration, root hash) pairs reached at epoch >= 1",
        &["blake3 collision resistance", "node labels come from the real VRF (binding is C18's subject)", "hard-coded test VRF key"],
    )
}
