//! C15 — reads inside a storage transaction see pending writes exactly as after commit.
//!
//! E3: breadth-first search over operation histories of the public StorageManager API with exact
//! state fingerprints (database + transaction log + cache, via verif_hooks). States are reached by
//! replaying the history on fresh real objects. In every state the whole read suite is evaluated
//! (on a fresh replay, so reads do not disturb the state) and compared with StoreModel; in every
//! state with an open transaction that can be committed the suite is re-evaluated after a real
//! commit on a fork.

use super::store::*;
use crate::common::*;
use crate::gate::{rec_key, GateDb};
use crate::report::Report;
use crate::Args;
use akd::storage::types::DbRecord;
use akd::storage::StorageManager;
use serde_json::json;
use std::collections::HashSet;
use std::sync::Mutex;

#[derive(Clone, Copy, Debug, PartialEq, Eq)]
pub enum Op {
    SetAzks(u64),
    SetNode(usize, u64),
    Append(usize, u64),
    Rewrite(usize, u64),
    /// batch_set [new user state at epoch e, epoch record e]
    BatchAppendAzks(usize, u64),
    /// batch_set [node0 content c, node1 content c]
    BatchNodes(u64),
    /// batch_set [epoch record e, node0 content e] — the epoch record NOT last in the batch
    BatchAzksFirst(u64),
    Begin,
    Commit,
    Rollback,
}

pub fn show_op(op: &Op) -> String {
    match op {
        Op::SetAzks(e) => format!("set(azks e{e})"),
        Op::SetNode(i, c) => format!("set(node{i} e{c})"),
        Op::Append(u, e) => format!("set({} new state @{e})", USERS[*u]),
        Op::Rewrite(u, e) => format!("set({} rewrite @{e})", USERS[*u]),
        Op::BatchAppendAzks(u, e) => format!("batch_set([{} new state @{e}, azks e{e}])", USERS[*u]),
        Op::BatchNodes(c) => format!("batch_set([node0 e{c}, node1 e{c}])"),
        Op::BatchAzksFirst(e) => format!("batch_set([azks e{e}, node0 e{e}])"),
        Op::Begin => "begin".into(),
        Op::Commit => "commit".into(),
        Op::Rollback => "rollback".into(),
    }
}

pub struct Universe {
    pub n_nodes: usize,
    pub max_epoch: [u64; 2],
    pub azks_epochs: Vec<u64>,
    pub node_contents: Vec<u64>,
}

pub fn alphabet(u: &Universe) -> Vec<Op> {
    let mut ops = vec![Op::Begin, Op::Commit, Rollback_()];
    fn Rollback_() -> Op {
        Op::Rollback
    }
    for &e in &u.azks_epochs {
        ops.push(Op::SetAzks(e));
    }
    for i in 0..u.n_nodes {
        for &c in &u.node_contents {
            ops.push(Op::SetNode(i, c));
        }
    }
    for usr in 0..2 {
        for e in 1..=u.max_epoch[usr] {
            ops.push(Op::Append(usr, e));
            ops.push(Op::Rewrite(usr, e));
        }
    }
    for e in 1..=u.max_epoch[0] {
        ops.push(Op::BatchAppendAzks(0, e));
    }
    if u.n_nodes >= 2 {
        for &c in &u.node_contents {
            ops.push(Op::BatchNodes(c));
        }
    }
    if let Some(&e) = u.azks_epochs.last() {
        ops.push(Op::BatchAzksFirst(e));
    }
    ops
}

/// the records an op writes, given the model state (None = op not enabled)
pub fn records_of(op: &Op, m: &StoreModel) -> Option<Vec<DbRecord>> {
    match op {
        Op::SetAzks(e) => Some(vec![azks_rec(*e)]),
        Op::SetNode(i, c) => Some(vec![node_rec(*i, *c)]),
        Op::Append(u, e) => {
            let user = USERS[*u];
            if *e <= m.max_epoch(user) {
                return None;
            }
            let version = StoreModel::user_states(&m.view(), user).len() as u64 + 1;
            Some(vec![vs_rec(user, *e, version, false)])
        }
        Op::Rewrite(u, e) => {
            let user = USERS[*u];
            let st = m.state_at(user, *e)?;
            // rewriting keeps the version; the value toggles between plain and tombstone
            Some(vec![vs_rec(user, *e, st.version, !st.value.0.is_empty())])
        }
        Op::BatchAppendAzks(u, e) => {
            let mut v = records_of(&Op::Append(*u, *e), m)?;
            v.push(azks_rec(*e));
            Some(v)
        }
        Op::BatchNodes(c) => Some(vec![node_rec(0, *c), node_rec(1, *c)]),
        Op::BatchAzksFirst(e) => Some(vec![azks_rec(*e), node_rec(0, *e)]),
        _ => Some(vec![]),
    }
}

pub struct Applied {
    pub note: String,
    pub violation: Option<(String, String)>,
}

/// apply one op to the real manager and to the model; checks the op-level contract
pub async fn apply(op: &Op, db: &GateDb, mgr: &StorageManager<GateDb>, m: &mut StoreModel) -> Applied {
    let mut violation = None;
    let mut note = String::new();
    match op {
        Op::Begin => {
            let was = m.active;
            let r = mgr.begin_transaction();
            if r == was {
                violation = Some(("begin_result".to_string(), format!("begin_transaction returned {r} while a transaction was {}", if was { "open" } else { "not open" })));
            }
            m.active = true;
        }
        Op::Rollback => {
            let r = mgr.rollback_transaction();
            if r.is_ok() != m.active {
                violation = Some(("rollback_result".to_string(), format!("rollback returned {r:?} with transaction open={}", m.active)));
            }
            m.pending.clear();
            m.active = false;
        }
        Op::Commit => {
            db.ctl.commit_log.lock().unwrap().clear();
            db.ctl.record_commits.store(true, std::sync::atomic::Ordering::SeqCst);
            let r = mgr.commit_transaction().await;
            db.ctl.record_commits.store(false, std::sync::atomic::Ordering::SeqCst);
            let log = std::mem::take(&mut *db.ctl.commit_log.lock().unwrap());
            if !m.active {
                if r.is_ok() || !log.is_empty() {
                    violation = Some(("commit_without_transaction".to_string(), format!("commit returned {r:?} / wrote {} batches without an open transaction", log.len())));
                }
            } else {
                let has_azks = m.pending.values().any(|r| matches!(r, DbRecord::Azks(_)));
                if m.pending.is_empty() {
                    if r.is_err() || !log.is_empty() {
                        violation = Some(("empty_commit".to_string(), format!("commit of an empty log returned {r:?} / wrote {} batches", log.len())));
                    }
                } else if !has_azks && (r.is_err() || log.is_empty()) {
                    // a log without an epoch record may be refused: accepted provided nothing was written and
                    // no transaction stays open (the pending writes are discarded)
                    note = "commit refused (no epoch record in the log)".into();
                    if r.is_ok() || !log.is_empty() {
                        violation = Some(("commit_without_epoch_record".to_string(), format!("commit returned {r:?} / wrote {} batches", log.len())));
                    }
                    m.pending.clear();
                } else {
                    // the database must receive exactly the pending records, epoch record last
                    let mut want: Vec<DbRecord> = m.pending.values().filter(|r| !matches!(r, DbRecord::Azks(_))).cloned().collect();
                    want.sort_by_key(rec_key);
                    want.extend(m.pending.values().filter(|r| matches!(r, DbRecord::Azks(_))).cloned());
                    // (the implementation may hand the records over in one batch or several: what matters is the
                    // union, and that the epoch record is the last record of the last batch)
                    let mut got: Vec<DbRecord> = log.iter().flat_map(|l| l.0.iter().filter(|r| !matches!(r, DbRecord::Azks(_))).cloned()).collect();
                    got.sort_by_key(rec_key);
                    let azks_only_in_last = log.iter().enumerate().all(|(i, l)| i + 1 == log.len() || !l.0.iter().any(|r| matches!(r, DbRecord::Azks(_))));
                    if let Some(last) = log.last() {
                        got.extend(last.0.iter().filter(|r| matches!(r, DbRecord::Azks(_))).cloned());
                    }
                    let ok = r.is_ok() && !log.is_empty() && got == want && azks_only_in_last && log.iter().all(|l| l.1);
                    if !ok {
                        violation = Some((
                            "commit_batch_differs_from_pending".to_string(),
                            format!(
                                "commit returned {r:?}; batches={}; epoch_record_last={:?}; got=[{}] want=[{}]",
                                log.len(),
                                log.first().map(|l| l.1),
                                log.first().map(|l| l.0.iter().map(show_rec).collect::<Vec<_>>().join(",")).unwrap_or_default(),
                                want.iter().map(show_rec).collect::<Vec<_>>().join(",")
                            ),
                        ));
                    }
                    let pend = std::mem::take(&mut m.pending);
                    for (k, r) in pend {
                        m.committed.insert(k, r);
                    }
                }
                m.active = false;
                if mgr.is_transaction_active() {
                    violation = Some(("transaction_open_after_commit".to_string(), String::new()));
                }
            }
        }
        w => {
            let recs = records_of(w, m).expect("enabled");
            let r = if recs.len() == 1 { mgr.set(recs[0].clone()).await } else { mgr.batch_set(recs.clone()).await };
            if let Err(e) = r {
                violation = Some(("write_failed".to_string(), format!("{e:?}")));
            }
            for r in &recs {
                m.write(r);
            }
        }
    }
    Applied { note, violation }
}

pub fn enabled(op: &Op, m: &StoreModel) -> bool {
    records_of(op, m).is_some()
}

pub async fn replay(cache: CacheCfg, hist: &[Op]) -> (GateDb, StorageManager<GateDb>, StoreModel, Vec<(String, String)>) {
    crate::vclock::reset();
    let db = GateDb::new();
    let mgr = manager(&db, cache);
    let mut m = StoreModel::default();
    let mut vs = vec![];
    for op in hist {
        let a = apply(op, &db, &mgr, &mut m).await;
        if let Some(v) = a.violation {
            vs.push(v);
        }
    }
    (db, mgr, m, vs)
}

fn bfs(args: &Args, rep: &Report, cache: CacheCfg, uni: &Universe, depth: usize, state_cap: usize) {
    let ops = alphabet(uni);
    let seen: Mutex<HashSet<u128>> = Mutex::new(HashSet::new());
    let h128 = |s: &str| -> u128 { u128::from_le_bytes(blake3::hash(s.as_bytes()).as_bytes()[..16].try_into().unwrap()) };
    let mut frontier: Vec<Vec<Op>> = vec![vec![]];
    let vname = format!("{cache:?}");
    let mut total_states = 0u64;
    let mut total_trans = 0u64;
    for d in 0..=depth {
        let next: Mutex<Vec<Vec<Op>>> = Mutex::new(vec![]);
        let new_states = std::sync::atomic::AtomicU64::new(0);
        let trans = std::sync::atomic::AtomicU64::new(0);
        crate::explore::par_for(args.threads, &frontier, |_, hist| {
            crate::vclock::enable();
            let rt = crate::gate::plain_runtime();
            rt.block_on(async {
                // (1) the state itself: replay, fingerprint, op-level contract of the last op
                let (db, mgr, m, vs) = replay(cache, hist).await;
                // the deduplication key pairs the real state with the MODEL state: a transition after which the
                // two diverge is never merged with a state in which they agree
                let model_fp = format!(
                    "|M{}:{}|{}",
                    m.active as u8,
                    m.committed.values().map(show_rec).collect::<Vec<_>>().join(";"),
                    m.pending.values().map(show_rec).collect::<Vec<_>>().join(";")
                );
                let fp = format!("{}{}", fingerprint(&db, &mgr).await, model_fp);
                let hshow = || hist.iter().map(show_op).collect::<Vec<_>>().join(" ; ");
                if d > 0 {
                    trans.fetch_add(1, std::sync::atomic::Ordering::Relaxed);
                }
                // op contracts are properties of TRANSITIONS: judged before deduplication (a transition into
                // an already known state must not escape judgement)
                for (k, v) in vs {
                    rep.violation(format!("{vname}/op_contract/{k}"), json!({"history": hshow(), "detail": v}));
                }
                if !seen.lock().unwrap().insert(h128(&fp)) {
                    return;
                }
                new_states.fetch_add(1, std::sync::atomic::Ordering::Relaxed);
                // "begin while open is refused and changes nothing" / "rollback discards everything":
                // both are visible in the fingerprint of the successor, checked via the model in (2)
                // (2) the read suite on a fresh replay vs StoreModel's view
                let (_db2, mgr2, m2, _) = replay(cache, hist).await;
                let view = m2.view();
                let answers = read_suite(&mgr2, &view, uni.n_nodes, true).await;
                rep.eval(answers.len() as u64);
                for (q, got, want) in &answers {
                    if got != want {
                        let qn = q.split('(').next().unwrap_or(q);
                        rep.violation(
                            format!("{vname}/read_differs_from_model/{}/{}", if m.active { "in_transaction" } else { "no_transaction" }, qn),
                            json!({"history": hshow(), "query": q, "got": got, "want": want, "transaction_open": m.active}),
                        );
                    }
                }
                // (3) open transaction with an epoch record pending: commit for real on a fork and
                // ask again — literally "the same read once the transaction is committed"
                if m.active && m.pending.values().any(|r| matches!(r, DbRecord::Azks(_))) {
                    let mut h3 = hist.clone();
                    h3.push(Op::Commit);
                    let (_db3, mgr3, _m3, _) = replay(cache, &h3).await;
                    let after = read_suite(&mgr3, &view, uni.n_nodes, true).await;
                    rep.eval(after.len() as u64);
                    for ((q, got_in, _), (_, got_after, _)) in answers.iter().zip(after.iter()) {
                        if got_in != got_after {
                            let qn = q.split('(').next().unwrap_or(q);
                            rep.violation(
                                format!("{vname}/in_transaction_read_differs_from_post_commit/{qn}"),
                                json!({"history": hshow(), "query": q, "in_transaction": got_in, "after_commit": got_after}),
                            );
                        }
                    }
                    rep.count("states_compared_against_real_commit", 1);
                }
                if m.active {
                    rep.distinct(fp.clone());
                }
                if d == depth.min(4) && m.active && !m.pending.is_empty() {
                    rep.sample_cap(json!({"variant": vname, "history": hshow(), "reads_compared": answers.len()}), 6);
                }
                // successors
                if d < depth {
                    let mut nx = next.lock().unwrap();
                    for op in &ops {
                        if enabled(op, &m) {
                            let mut h = hist.clone();
                            h.push(*op);
                            nx.push(h);
                        }
                    }
                }
            });
        });
        let ns = new_states.load(std::sync::atomic::Ordering::Relaxed);
        total_states += ns;
        total_trans += trans.load(std::sync::atomic::Ordering::Relaxed);
        rep.count(&format!("{vname}:new_states_at_depth_{d}"), ns);
        frontier = next.into_inner().unwrap();
        if total_states as usize > state_cap && d < depth {
            rep.cap_hit(format!("{vname}: state cap {state_cap} reached after depth {d}; deeper levels not explored"));
            break;
        }
    }
    rep.states(total_states, total_trans);
    rep.traces(total_states);
}

pub fn run(args: &Args) -> i32 {
    let rep = Report::new("C15", &args.tier, "model_checking");
    if !crate::vclock::self_check() {
        eprintln!("MACHINERY ERROR: virtual clock interposition not effective");
        return 2;
    }
    let (uni, depth, cap) = if args.quick() {
        (Universe { n_nodes: 1, max_epoch: [3, 2], azks_epochs: vec![2], node_contents: vec![1, 2] }, 6, 1_500_000)
    } else {
        (Universe { n_nodes: 2, max_epoch: [3, 3], azks_epochs: vec![1, 2, 3], node_contents: vec![1, 2, 3] }, 6, 6_000_000)
    };
    bfs(args, &rep, CacheCfg::None, &uni, depth, cap);
    bfs(args, &rep, CacheCfg::Default, &uni, depth, cap);
    rep.extra("alphabet", json!(alphabet(&uni).iter().map(show_op).collect::<Vec<_>>()));
    rep.finish(
        "explicit-state BFS over histories of StorageManager operations (set / 2-record batch_set of the epoch record, tree nodes, well-formed user states incl. tombstone-shaped rewrites; begin / commit / rollback), states deduplicated by an exact fingerprint of database + transaction log + cache; every state is reached by replaying its history on fresh real objects (traces_validated = states). In every state the full read suite (get, batch_get over key subsets, get_user_state for every flag and argument, get_user_data, get_user_state_versions for every user subset and flag) is compared with StoreModel(committed + pending); states with a committable open transaction are additionally committed for real and re-read. Op contracts: begin while open refused, rollback/commit results, commit batch = pending records with the epoch record last. distinct = distinct open-transaction states",
        &["well-formed data only (the property's premise)", "StoreModel (BTreeMap + linear scans) is the specification of the queries", "a commit of a non-empty log without an epoch record is treated as a refusal (nothing written, transaction closed)"],
    )
}
