//! C02 — lookup returns a verifying proof of the latest value for every published label.

use super::hist::*;
use crate::common::*;
use crate::model::*;
use crate::oracles::*;
use crate::report::Report;
use crate::Args;
use akd::append_only_zks::AzksParallelismConfig;
use akd::AkdLabel;
use serde_json::json;
use std::future::Future;
use std::pin::Pin;

struct V2<'r> {
    rep: &'r Report,
}

pub fn never_labels() -> Vec<Vec<u8>> {
    vec![b"zz-never-1".to_vec(), b"u".to_vec()]
}

impl<'r, TC: ModelCfg> HistVisitor<TC> for V2<'r> {
    fn visit<'a>(&'a self, ctx: &'a HistCtx<TC>) -> Pin<Box<dyn Future<Output = ()> + 'a>> {
        Box::pin(async move {
            let dir = new_dir::<TC>(&ctx.db, &ctx.vrf, CacheCfg::None, AzksParallelismConfig::disabled()).await;
            let hist = || show_history(&ctx.history);
            let mut labels: Vec<Vec<u8>> = alphabet::<TC>().labels.clone();
            for l in ctx.model.users.keys() {
                if !labels.contains(l) {
                    labels.push(l.clone());
                }
            }
            labels.extend(never_labels());
            let mut singles = std::collections::BTreeMap::new();
            for l in &labels {
                self.rep.eval(1);
                match check_lookup::<TC, _>(&dir, l, &ctx.model, &ctx.published, Some(ctx.model.epoch)).await {
                    Err(b) => self.rep.violation(format!("{}/{}", TC::NAME, b.kind), json!({"history": hist(), "detail": b.detail})),
                    Ok(Some((_, vr))) => {
                        self.rep.distinct(format!("{}:{}:v{}@{}", TC::NAME, show_bytes(l), vr.1, vr.2));
                        singles.insert(l.clone(), vr);
                    }
                    Ok(None) => {
                        if ctx.model.latest(l).is_some() {
                            // cannot happen: require_epoch is set
                        }
                    }
                }
            }
            // batch lookup over every non-empty subset of published labels (in label order), and
            // the full set plus one unpublished label
            let published: Vec<Vec<u8>> = ctx.model.users.keys().cloned().collect();
            let n = published.len().min(4);
            for mask in 1u32..(1 << n) {
                let subset: Vec<Vec<u8>> = (0..n).filter(|i| mask & (1 << i) != 0).map(|i| published[i].clone()).collect();
                // (in label order for odd masks, reversed for even ones: the answer must follow the request order)
                let subset: Vec<Vec<u8>> = if mask % 2 == 0 { subset.into_iter().rev().collect() } else { subset };
                let akd_labels: Vec<AkdLabel> = subset.iter().map(|l| AkdLabel(l.clone())).collect();
                self.rep.eval(1);
                match dir.batch_lookup(&akd_labels).await {
                    Err(e) => self.rep.violation(
                        format!("{}/batch_lookup_failed", TC::NAME),
                        json!({"history": hist(), "labels": subset.iter().map(|l| show_bytes(l)).collect::<Vec<_>>(), "error": format!("{e:?}")}),
                    ),
                    Ok((proofs, eh)) => {
                        if proofs.len() != subset.len() || eh.0 != ctx.model.epoch || eh.1 != ctx.published[ctx.model.epoch as usize] {
                            self.rep.violation(
                                format!("{}/batch_lookup_wrong_shape_or_epoch_hash", TC::NAME),
                                json!({"history": hist(), "proofs": proofs.len(), "labels": subset.len(), "epoch": eh.0}),
                            );
                            continue;
                        }
                        for (l, p) in subset.iter().zip(proofs.into_iter()) {
                            match verify_lookup::<TC>(l, p, &eh) {
                                Ok(vr) if Some(&vr) == singles.get(l) => {}
                                other => self.rep.violation(
                                    format!("{}/batch_lookup_result_differs_from_single", TC::NAME),
                                    json!({"history": hist(), "label": show_bytes(l), "batch": format!("{other:?}"), "single": format!("{:?}", singles.get(l))}),
                                ),
                            }
                        }
                    }
                }
            }
            if !published.is_empty() {
                let mut with_unknown: Vec<AkdLabel> = published.iter().map(|l| AkdLabel(l.clone())).collect();
                with_unknown.push(AkdLabel(never_labels()[0].clone()));
                self.rep.eval(1);
                if dir.batch_lookup(&with_unknown).await.is_ok() {
                    self.rep.violation(format!("{}/batch_lookup_with_unpublished_label_succeeded", TC::NAME), json!({"history": hist()}));
                }
            }
            self.rep.sample(json!({"cfg": TC::NAME, "history": hist(), "lookups": labels.iter().map(|l| show_bytes(l)).collect::<Vec<_>>(),
                                   "results": singles.iter().map(|(l, v)| json!([show_bytes(l), show_vr(v)])).collect::<Vec<_>>()}));
        })
    }
}

pub fn run(args: &Args) -> i32 {
    let rep = Report::new("C02", &args.tier, "exploration");
    let plan = if args.quick() {
        Plan { base_depth: 2, ext_depth: 2, chains: vec![(17, 1)], shape_depth: 2, cache: CacheCfg::None, par: AzksParallelismConfig::disabled() }
    } else {
        Plan { base_depth: 3, ext_depth: 3, chains: vec![(33, 1), (17, 2)], shape_depth: 2, cache: CacheCfg::None, par: AzksParallelismConfig::disabled() }
    };
    let v = V2 { rep: &rep };
    run_plan(args.threads, &plan, &v);
    rep.extra("plan", json!(plan_note(&plan)));
    rep.finish(
        "after every epoch of every history: lookup of every label of the alphabet, every published label and two never-published labels, plus batch_lookup of every non-empty subset of published labels and one batch containing an unpublished label; each proof verified with the real lookup_verify and compared with DirModel. distinct = distinct (configuration, label, version, update epoch) results verified",
        &["blake3 collision resistance", "hard-coded test VRF key", "C01 establishes that published hashes are the canonical ones"],
    )
}
