//! C17 — node-label operations agree with their bit-string meaning.

use super::hist::{E, W};
use crate::common::*;
use crate::model::*;
use crate::report::Report;
use crate::Args;
use akd::{AzksElement, AzksValue, NodeLabel, PrefixOrdering};
use serde_json::json;

fn all_bits_upto(n: usize) -> Vec<Bits> {
    let mut out = vec![];
    for len in 0..=n {
        for v in 0u32..(1 << len) {
            out.push(Bits((0..len).map(|i| (v >> (len - 1 - i)) & 1 == 1).collect()));
        }
    }
    out
}

fn ord_model(a: &Bits, b: &Bits) -> std::cmp::Ordering {
    a.len().cmp(&b.len()).then_with(|| a.0.cmp(&b.0))
}

fn po_model(a: &Bits, b: &Bits) -> PrefixOrdering {
    if a.len() < b.len() && a.is_prefix_of(b) {
        if b.0[a.len()] {
            PrefixOrdering::WithOne
        } else {
            PrefixOrdering::WithZero
        }
    } else {
        PrefixOrdering::Invalid
    }
}

/// a label with the same meaningful bits but garbage beyond its length
fn with_garbage(b: &Bits, seed: u8) -> NodeLabel {
    let (mut v, l) = b.to_bytes();
    for i in l as usize..256 {
        let g = (blake3::hash(&[seed, (i % 251) as u8, (i / 251) as u8]).as_bytes()[0] & 1) == 1;
        if g {
            v[i / 8] |= 1 << (7 - (i % 8));
        }
    }
    NodeLabel::new(v, l)
}

/// relation class of a pair: used to count distinct non-trivial cases
fn pair_class(fam: &str, a: &Bits, b: &Bits) -> String {
    let l = a.lcp(b).len();
    let rel = if a == b {
        "equal"
    } else if l == a.len() {
        "a_prefix_of_b"
    } else if l == b.len() {
        "b_prefix_of_a"
    } else {
        "diverge"
    };
    format!("{fam}:{rel}:lcp{}:alen%8={}:blen%8={}", l, a.len() % 8, b.len() % 8)
}

fn check_pair<TC: ModelCfg>(rep: &Report, fam: &str, a: &Bits, b: &Bits, na: NodeLabel, nb: NodeLabel, canonical: bool) {
    rep.eval(1);
    let ctx = || json!({"a": a.show(), "b": b.show(), "a_len": a.len(), "b_len": b.len(), "family": fam, "canonical_inputs": canonical});
    if na.is_prefix_of(&nb) != a.is_prefix_of(b) {
        rep.violation(format!("{}/is_prefix_of/{}", TC::NAME, fam), ctx());
    }
    let lcp = na.get_longest_common_prefix::<TC>(nb);
    let want = bits_nl(&a.lcp(b));
    if lcp != want {
        rep.violation(format!("{}/longest_common_prefix/{}", TC::NAME, fam), json!({"ctx": ctx(), "got": format!("{lcp}"), "want": format!("{want}")}));
    }
    if na.get_prefix_ordering(nb) != po_model(a, b) {
        rep.violation(format!("{}/prefix_ordering/{}", TC::NAME, fam), json!({"ctx": ctx(), "got": format!("{:?}", na.get_prefix_ordering(nb)), "want": format!("{:?}", po_model(a, b))}));
    }
    if canonical && na.cmp(&nb) != ord_model(a, b) {
        rep.violation(format!("{}/ordering/{}", TC::NAME, fam), ctx());
    }
    if canonical && (na == nb) != (a == b) {
        rep.violation(format!("{}/equality/{}", TC::NAME, fam), ctx());
    }
}

fn check_prefixes<TC: ModelCfg>(rep: &Report, fam: &str, a: &Bits, na: NodeLabel, lens: &[usize]) {
    for &l in lens {
        if l > a.len() {
            continue;
        }
        rep.eval(1);
        let got = na.get_prefix(l as u32);
        let want = bits_nl(&a.prefix(l));
        if got != want {
            rep.violation(
                format!("{}/get_prefix/{}", TC::NAME, fam),
                json!({"a": a.show(), "a_len": a.len(), "len": l, "got": format!("{got}"), "want": format!("{want}")}),
            );
        }
    }
}

fn small_exhaustive<TC: ModelCfg>(args: &Args, rep: &Report) {
    let n = if args.quick() { 8 } else { 10 };
    let all = all_bits_upto(n);
    let nls: Vec<NodeLabel> = all.iter().map(bits_nl).collect();
    let idx: Vec<usize> = (0..all.len()).collect();
    crate::explore::par_for(args.threads, &idx, |_, &i| {
        let lens: Vec<usize> = (0..=n + 1).collect();
        check_prefixes::<TC>(rep, "small", &all[i], nls[i], &lens);
        let mut classes = std::collections::BTreeSet::new();
        for j in 0..all.len() {
            check_pair::<TC>(rep, "small", &all[i], &all[j], nls[i], nls[j], true);
            classes.insert(pair_class("small", &all[i], &all[j]));
        }
        for c in classes {
            rep.distinct(c);
        }
        // garbage beyond the length must be ignored by the operations documented to ignore it
        if i % 7 == 0 {
            let ga = with_garbage(&all[i], 1);
            for j in (0..all.len()).step_by(5) {
                check_pair::<TC>(rep, "small_garbage", &all[i], &all[j], ga, with_garbage(&all[j], 2), false);
            }
            check_prefixes::<TC>(rep, "small_garbage", &all[i], ga, &lens);
        }
    });
    rep.count(&format!("{}:labels_upto_{}_bits", TC::NAME, n), all.len() as u64);
    rep.distinct(format!("{}:small:{}", TC::NAME, all.len()));
}

fn boundary_lengths() -> Vec<usize> {
    let mut v = vec![0usize, 1];
    for k in 1..=32 {
        for d in [-1i32, 0, 1] {
            let x = k * 8 + d;
            if (0..=256).contains(&x) {
                v.push(x as usize);
            }
        }
    }
    v.sort();
    v.dedup();
    v
}

fn boundary_positions() -> Vec<usize> {
    let mut v = vec![0usize, 1];
    for k in 1..=32 {
        for d in [-2i32, -1, 0, 1] {
            let x = k * 8 + d;
            if (0..256).contains(&x) {
                v.push(x as usize);
            }
        }
    }
    v.sort();
    v.dedup();
    v
}

fn pattern(kind: usize, len: usize, p: usize) -> Bits {
    Bits(
        (0..len)
            .map(|i| match kind {
                0 => false,
                1 => true,
                2 => i % 2 == 0,
                3 => i == p,
                _ => i % 3 == 0 || i == p,
            })
            .collect(),
    )
}

fn boundary_family<TC: ModelCfg>(args: &Args, rep: &Report) {
    let lens = boundary_lengths();
    let poss = boundary_positions();
    // the label pool: every length x pattern (x p for the positional patterns)
    let mut pool: Vec<Bits> = vec![];
    for &l in &lens {
        for kind in 0..3 {
            pool.push(pattern(kind, l, 0));
        }
        for &p in &poss {
            if p < l {
                pool.push(pattern(3, l, p));
                if !args.quick() {
                    pool.push(pattern(4, l, p));
                }
                // a pair differing exactly at bit p: alternating, with bit p flipped
                let mut f = pattern(2, l, 0);
                f.0[p] = !f.0[p];
                pool.push(f);
            }
        }
    }
    pool.sort();
    pool.dedup();
    let nls: Vec<NodeLabel> = pool.iter().map(bits_nl).collect();
    let idx: Vec<usize> = (0..pool.len()).collect();
    let stride = if args.quick() { 7 } else { 1 };
    crate::explore::par_for(args.threads, &idx, |_, &i| {
        let mut plens = lens.clone();
        plens.extend(poss.iter().cloned());
        check_prefixes::<TC>(rep, "boundary", &pool[i], nls[i], &plens);
        let ga = with_garbage(&pool[i], 3);
        check_prefixes::<TC>(rep, "boundary_garbage", &pool[i], ga, &plens);
        let mut j = i % stride;
        let mut classes = std::collections::BTreeSet::new();
        while j < pool.len() {
            check_pair::<TC>(rep, "boundary", &pool[i], &pool[j], nls[i], nls[j], true);
            classes.insert(pair_class("boundary", &pool[i], &pool[j]));
            if (i + j) % 5 == 0 {
                check_pair::<TC>(rep, "boundary_garbage", &pool[i], &pool[j], ga, with_garbage(&pool[j], 4), false);
            }
            j += stride;
        }
        for c in classes {
            rep.distinct(c);
        }
    });
    rep.count(&format!("{}:boundary_labels", TC::NAME), pool.len() as u64);
    rep.distinct(format!("{}:boundary:{}", TC::NAME, pool.len()));
    rep.sample(json!({"cfg": TC::NAME, "family": "boundary", "labels": pool.len(), "lengths": lens.len(), "example": pool[pool.len() / 2].show()}));
}

// ---- set operations (through the verif_hooks accessors of akd::append_only_zks)

fn el(b: &Bits) -> AzksElement {
    AzksElement { label: bits_nl(b), value: AzksValue([0u8; 32]) }
}

#[cfg(feature = "hooks")]
fn check_set<TC: ModelCfg>(rep: &Report, fam: &str, set: &[Bits]) {
    use akd::append_only_zks::verif_hooks::set_ops;
    let elems: Vec<AzksElement> = set.iter().map(el).collect();
    // model: common prefix of the set
    let lcp_model = if set.is_empty() {
        None
    } else {
        let mut l = set[0].clone();
        for s in &set[1..] {
            l = l.lcp(s);
        }
        Some(l)
    };
    // every common prefix (every prefix of the set's LCP)
    let max = lcp_model.as_ref().map(|l| l.len()).unwrap_or(0);
    for plen in 0..=max {
        let prefix = lcp_model.as_ref().map(|l| l.prefix(plen)).unwrap_or(Bits(vec![]));
        let pn = bits_nl(&prefix);
        rep.eval(1);
        let nat = set_ops::<TC>(elems.clone(), false, pn);
        let uns = set_ops::<TC>(elems.clone(), true, pn);
        // a permuted input order must not matter either
        let mut rev = elems.clone();
        rev.reverse();
        let rev_nat = set_ops::<TC>(rev, false, pn);
        let ml: Vec<Bits> = set.iter().filter(|s| s.len() > plen && prefix.is_prefix_of(s) && !s.0[plen]).cloned().collect();
        let mr: Vec<Bits> = set.iter().filter(|s| s.len() > plen && prefix.is_prefix_of(s) && s.0[plen]).cloned().collect();
        let mc = set.iter().any(|s| prefix.is_prefix_of(s));
        let norm = |v: &Vec<AzksElement>| -> Vec<Bits> {
            let mut x: Vec<Bits> = v.iter().map(|e| nl_bits(&e.label)).collect();
            x.sort();
            x
        };
        let mut mls = ml.clone();
        mls.sort();
        let mut mrs = mr.clone();
        mrs.sort();
        let ctx = || json!({"family": fam, "set": set.iter().map(|s| s.show()).collect::<Vec<_>>(), "prefix": prefix.show(), "natural_repr_sorted_searchable": nat.binary_searchable});
        // small mixed-length sets: every input order, in both representations
        let mut extra: Vec<(String, akd::append_only_zks::verif_hooks::SetOps)> = vec![];
        if fam == "mixed_lengths" && (3..=4).contains(&elems.len()) {
            let idx: Vec<usize> = (0..elems.len()).collect();
            for perm in super::c14::permutations_pub(&idx) {
                let pe: Vec<AzksElement> = perm.iter().map(|&i| elems[i].clone()).collect();
                extra.push(("permuted_input".into(), set_ops::<TC>(pe.clone(), false, pn)));
                extra.push(("permuted_input_forced_unsorted".into(), set_ops::<TC>(pe, true, pn)));
                rep.eval(2);
            }
        }
        let mut variants: Vec<(&str, &akd::append_only_zks::verif_hooks::SetOps)> = vec![("natural", &nat), ("forced_unsorted", &uns), ("reversed_input", &rev_nat)];
        for (n, r) in extra.iter() {
            variants.push((n.as_str(), r));
        }
        for (name, r) in variants {
            if norm(&r.left) != mls || norm(&r.right) != mrs {
                rep.violation(format!("{}/partition/{}/{}", TC::NAME, fam, name), json!({"ctx": ctx(), "left": norm(&r.left).iter().map(|b| b.show()).collect::<Vec<_>>(), "right": norm(&r.right).iter().map(|b| b.show()).collect::<Vec<_>>()}));
            }
            if r.contains_prefix != mc {
                rep.violation(format!("{}/contains_prefix/{}/{}", TC::NAME, fam, name), ctx());
            }
            if let Some(l) = &lcp_model {
                if r.lcp != bits_nl(l) {
                    rep.violation(format!("{}/set_common_prefix/{}/{}", TC::NAME, fam, name), json!({"ctx": ctx(), "got": format!("{}", r.lcp), "want": l.show()}));
                }
            } else if r.lcp != TC::empty_label() {
                rep.violation(format!("{}/set_common_prefix_of_empty_set/{}/{}", TC::NAME, fam, name), ctx());
            }
        }
    }
    // contains_prefix for non-common prefixes: every prefix of every element, and a sibling prefix
    for s in set.iter() {
        for plen in [0usize, 1, s.len() / 2, s.len().saturating_sub(1), s.len()] {
            if plen > s.len() {
                continue;
            }
            for flip in [false, true] {
                let mut p = s.prefix(plen);
                if flip {
                    if plen == 0 {
                        continue;
                    }
                    let k = plen - 1;
                    p.0[k] = !p.0[k];
                }
                rep.eval(1);
                let mc = set.iter().any(|x| p.is_prefix_of(x));
                let pn = bits_nl(&p);
                for (name, force) in [("natural", false), ("forced_unsorted", true)] {
                    let r = set_ops::<TC>(elems.clone(), force, pn);
                    if r.contains_prefix != mc {
                        rep.violation(
                            format!("{}/contains_prefix/{}/{}", TC::NAME, fam, name),
                            json!({"set": set.iter().map(|s| s.show()).collect::<Vec<_>>(), "prefix": p.show(), "want": mc}),
                        );
                    }
                }
            }
        }
    }
}

#[cfg(feature = "hooks")]
fn set_operations<TC: ModelCfg>(args: &Args, rep: &Report) {
    // (a) every subset of size <= 4 (quick 3) of the 5-bit universe
    let uni: Vec<Bits> = (0u32..32).map(|v| Bits((0..5).map(|i| (v >> (4 - i)) & 1 == 1).collect())).collect();
    let kmax = if args.quick() { 3 } else { 4 };
    let mut sets: Vec<Vec<usize>> = vec![];
    fn rec(start: usize, n: usize, k: usize, cur: &mut Vec<usize>, out: &mut Vec<Vec<usize>>) {
        out.push(cur.clone());
        if cur.len() == k {
            return;
        }
        for i in start..n {
            cur.push(i);
            rec(i + 1, n, k, cur, out);
            cur.pop();
        }
    }
    rec(0, 32, kmax, &mut vec![], &mut sets);
    crate::explore::par_for(args.threads, &sets, |_, s| {
        let set: Vec<Bits> = s.iter().map(|&i| uni[i].clone()).collect();
        check_set::<TC>(rep, "5bit_universe", &set);
    });
    rep.count(&format!("{}:sets_5bit", TC::NAME), sets.len() as u64);
    // (b) every subset of the 8 boundary labels (256-bit, adversarial shared prefixes)
    let u8 = super::c01::universe8();
    let masks: Vec<u32> = (0..256).collect();
    crate::explore::par_for(args.threads, &masks, |_, &m| {
        let set: Vec<Bits> = (0..8).filter(|i| m & (1 << i) != 0).map(|i| u8[i].clone()).collect();
        check_set::<TC>(rep, "boundary_universe", &set);
    });
    // (c) mixed-length sets (only the unsorted representation applies), prefix-free or not: subsets of size
    // <= 3 of all labels of length 1..3 (thorough: 1..4, plus size 4 of length 1..3), in EVERY input order
    let mut msets: Vec<Vec<Bits>> = vec![];
    {
        let small: Vec<Bits> = all_bits_upto(3).into_iter().filter(|b| b.len() > 0).collect();
        let mut ix: Vec<Vec<usize>> = vec![];
        rec(0, small.len(), if args.quick() { 3 } else { 4 }, &mut vec![], &mut ix);
        msets.extend(ix.iter().map(|s| s.iter().map(|&i| small[i].clone()).collect::<Vec<_>>()));
        if !args.quick() {
            let mixed: Vec<Bits> = all_bits_upto(4).into_iter().filter(|b| b.len() > 0).collect();
            let mut ix: Vec<Vec<usize>> = vec![];
            rec(0, mixed.len(), 3, &mut vec![], &mut ix);
            msets.extend(ix.iter().filter(|s| s.iter().any(|&i| mixed[i].len() == 4)).map(|s| s.iter().map(|&i| mixed[i].clone()).collect::<Vec<_>>()));
        }
    }
    crate::explore::par_for(args.threads, &msets, |_, set| {
        check_set::<TC>(rep, "mixed_lengths", set);
    });
    rep.distinct(format!("{}:sets:{}:{}", TC::NAME, sets.len(), msets.len()));
    rep.sample(json!({"cfg": TC::NAME, "family": "set_operations", "sets_5bit": sets.len(), "sets_boundary": 256, "sets_mixed": msets.len()}));
}

#[cfg(not(feature = "hooks"))]
fn set_operations<TC: ModelCfg>(_args: &Args, rep: &Report) {
    rep.note("built without hooks: set operations only covered through tree shapes (C01/C14)".into());
}

pub fn run(args: &Args) -> i32 {
    let rep = Report::new("C17", &args.tier, "exploration");
    small_exhaustive::<W>(args, &rep);
    small_exhaustive::<E>(args, &rep);
    boundary_family::<W>(args, &rep);
    boundary_family::<E>(args, &rep);
    set_operations::<W>(args, &rep);
    set_operations::<E>(args, &rep);
    rep.finish(
        "exhaustive: all labels of length 0..8 (thorough 0..10) — all ordered pairs for is_prefix_of, get_longest_common_prefix (both configurations), get_prefix_ordering, Ord/Eq, and all (label, len) for get_prefix; boundary family: lengths within +-1 of every byte boundary up to 256 x {zeros, ones, alternating, single one at p, pair differing exactly at p} for p around every byte boundary, pairwise, also with garbage bits beyond the length; set operations (via verif_hooks): every subset of size <= 3 (thorough 4) of the 5-bit universe, every subset of the 8 adversarial 256-bit labels and mixed-length sets x every common prefix: sorted-searchable vs unsorted representation vs reversed input vs BitsModel. One evaluation = one (pair | label,len | set,prefix) compared with the bit-string model",
        &["BitsModel (Vec<bool>) is the specification", "ordering documented as (length, then value)"],
    )
}
