//! C08 — lookup and history verifiers agree on a label's latest version under one root.
//!
//! E4: an accepted proof imposes a constraint set on the tree: atoms F(v) (fresh leaf of version v)
//! and S(v) (stale leaf of v), each required present or absent. The sets are computed with the real
//! `akd_core::utils::get_marker_versions`; the sweep over (epoch, version ranges) looks for pairs of
//! proofs with different latest versions and NO conflicting atom; the abstraction is bound to the
//! real verifiers by experiments on real (dishonestly built) trees: each proof verifies on its
//! minimal tree, fails when any required-present atom is removed or any required-absent atom is
//! added, and compatible pairs are replayed on the union tree.

use super::c06::{server, Server};
use super::hist::{E as ECfg, W};
use crate::common::*;
use crate::dishonest::*;
use crate::model::*;
use crate::oracles::*;
use crate::report::Report;
use crate::Args;
use akd::{AkdValue, EpochHash, HistoryParams, HistoryProof, HistoryVerificationParams, LookupProof, UpdateProof};
use akd_core::utils::get_marker_versions;
use serde_json::json;
use std::collections::BTreeSet;

#[derive(Clone, Copy, Debug, PartialEq, Eq, PartialOrd, Ord, Hash)]
enum Atom {
    F(u64),
    S(u64),
}

/// requirements of one accepted proof: contiguous ranges kept as intervals (versions go up to 2^32)
#[derive(Clone, Debug, Default)]
struct Req {
    /// F(v) present for v in this inclusive range (empty if lo > hi)
    f_range: (u64, u64),
    /// S(v) present for v in this inclusive range
    s_range: (u64, u64),
    /// further required-present atoms (past markers; lookup's leaves)
    present_extra: BTreeSet<Atom>,
    absent: BTreeSet<Atom>,
}

impl Req {
    fn requires_present(&self, a: &Atom) -> bool {
        match a {
            Atom::F(v) => (self.f_range.0 <= *v && *v <= self.f_range.1) || self.present_extra.contains(a),
            Atom::S(v) => (self.s_range.0 <= *v && *v <= self.s_range.1) || self.present_extra.contains(a),
        }
    }
    /// explicit set of required-present atoms (only for small ranges: real-tree experiments)
    fn present(&self) -> BTreeSet<Atom> {
        let mut p = self.present_extra.clone();
        if self.f_range.0 <= self.f_range.1 {
            for v in self.f_range.0..=self.f_range.1 {
                p.insert(Atom::F(v));
            }
        }
        if self.s_range.0 <= self.s_range.1 {
            for v in self.s_range.0..=self.s_range.1 {
                p.insert(Atom::S(v));
            }
        }
        p
    }
}

fn history_req(s: u64, n: u64, e: u64) -> Req {
    let mut r = Req { f_range: (s, n), s_range: (s.max(2) - 1, n - 1), ..Default::default() };
    if n == 1 {
        r.s_range = (1, 0); // empty
    }
    let (past, future) = get_marker_versions(s, n, e);
    for m in past {
        r.present_extra.insert(Atom::F(m));
    }
    for m in future {
        r.absent.insert(Atom::F(m));
    }
    r
}

fn lookup_req(m: u64) -> Req {
    let mut r = Req { f_range: (1, 0), s_range: (1, 0), ..Default::default() };
    r.present_extra.insert(Atom::F(m));
    r.present_extra.insert(Atom::F(1u64 << (63 - m.leading_zeros())));
    r.absent.insert(Atom::S(m));
    r
}

fn conflict(a: &Req, b: &Req) -> Option<Atom> {
    a.absent.iter().find(|x| b.requires_present(x)).or_else(|| b.absent.iter().find(|x| a.requires_present(x))).cloned()
}

/// a request is self-consistent if it does not require an atom both present and absent
fn consistent(r: &Req) -> bool {
    !r.absent.iter().any(|x| r.requires_present(x))
}

// ------------------------------------------------------------------------------------------
// real trees

const LABEL: &[u8] = b"victim";

fn value_of(v: u64) -> Vec<u8> {
    format!("val{v}").into_bytes()
}

/// a real tree containing exactly `atoms` (all leaves stamped with epoch 1), advanced to epoch `e`
async fn build_tree<TC: ModelCfg>(atoms: &BTreeSet<Atom>, e: u64) -> (DishonestServer<TC>, DirModel) {
    let mut srv = DishonestServer::<TC>::new().await;
    let leaves: Vec<LeafSpec> = atoms
        .iter()
        .map(|a| match a {
            Atom::F(v) => LeafSpec { label: LABEL.to_vec(), fresh: true, version: *v, value: value_of(*v) },
            Atom::S(v) => LeafSpec { label: LABEL.to_vec(), fresh: false, version: *v, value: vec![] },
        })
        .collect();
    srv.publish_raw(&leaves, &[]).await;
    for _ in 1..e {
        srv.publish_raw(&[], &[]).await;
    }
    // a model describing the leaf set for the trie (used only for ancestors of forged absences: none here)
    (srv, DirModel::default())
}

struct Prover<TC: ModelCfg> {
    srv: Server<TC>,
    eh: EpochHash,
}

async fn prover<TC: ModelCfg>(atoms: &BTreeSet<Atom>, e: u64) -> Prover<TC> {
    let (ds, _) = build_tree::<TC>(atoms, e).await;
    let eh = EpochHash(ds.epoch, *ds.roots.last().unwrap());
    // Server needs a model only for forged absences (not used here): give it an empty one
    let srv = server::<TC>(&ds.db, &ds.vrf, &DirModel::default()).await;
    Prover { srv, eh }
}

impl<TC: ModelCfg> Prover<TC> {
    async fn history(&self, s: u64, n: u64) -> HistoryProof {
        let cur = self.eh.0;
        let mut update_proofs = vec![];
        for v in (s..=n).rev() {
            update_proofs.push(UpdateProof {
                epoch: 1,
                version: v,
                value: AkdValue(value_of(v)),
                existence_vrf_proof: self.srv.vrf_proof(LABEL, true, v).await,
                existence_proof: self.srv.member(node_label::<TC>(LABEL, true, v)).await,
                previous_version_vrf_proof: if v > 1 { Some(self.srv.vrf_proof(LABEL, false, v - 1).await) } else { None },
                previous_version_proof: if v > 1 { Some(self.srv.member(node_label::<TC>(LABEL, false, v - 1)).await) } else { None },
                commitment_nonce: self.srv.nonce(LABEL, v, &value_of(v)),
            });
        }
        // (a claim beyond the epoch: the server computes the lists as if the epoch were large enough; the
        // real verifier must refuse before it ever evaluates them)
        let (past, future) = get_marker_versions(s, n, cur.max(n));
        let mut hp = HistoryProof {
            update_proofs,
            past_marker_vrf_proofs: vec![],
            existence_of_past_marker_proofs: vec![],
            future_marker_vrf_proofs: vec![],
            non_existence_of_future_marker_proofs: vec![],
        };
        for m in past {
            hp.past_marker_vrf_proofs.push(self.srv.vrf_proof(LABEL, true, m).await);
            hp.existence_of_past_marker_proofs.push(self.srv.member(node_label::<TC>(LABEL, true, m)).await);
        }
        for m in future {
            hp.future_marker_vrf_proofs.push(self.srv.vrf_proof(LABEL, true, m).await);
            hp.non_existence_of_future_marker_proofs.push(self.srv.non_member(node_label::<TC>(LABEL, true, m)).await);
        }
        hp
    }
    /// the history claim [s..n] with the entry of version `v` replaced by a copy of each neighbouring entry
    /// (entries whose own proofs cannot be generated on this tree are skipped)
    async fn history_with_overwrite(&self, s: u64, n: u64, v: u64) -> Vec<HistoryProof> {
        // build entries individually, tolerating the one that needs the missing leaf
        let full = {
            let mut ups = vec![];
            for ver in (s..=n).rev() {
                ups.push(UpdateProof {
                    epoch: 1,
                    version: ver,
                    value: AkdValue(value_of(ver)),
                    existence_vrf_proof: self.srv.vrf_proof(LABEL, true, ver).await,
                    existence_proof: self.srv.member(node_label::<TC>(LABEL, true, ver)).await,
                    previous_version_vrf_proof: if ver > 1 { Some(self.srv.vrf_proof(LABEL, false, ver - 1).await) } else { None },
                    previous_version_proof: if ver > 1 { Some(self.srv.member(node_label::<TC>(LABEL, false, ver - 1)).await) } else { None },
                    commitment_nonce: self.srv.nonce(LABEL, ver, &value_of(ver)),
                });
            }
            ups
        };
        let template = self.history(s, n).await;
        let idx = (n - v) as usize;
        let mut out = vec![];
        for nb in [idx.wrapping_sub(1), idx + 1] {
            if nb < full.len() {
                let mut h = template.clone();
                h.update_proofs = full.clone();
                h.update_proofs[idx] = full[nb].clone();
                out.push(h);
            }
        }
        out
    }
    async fn lookup(&self, m: u64) -> LookupProof {
        let fresh = self.srv.non_member(node_label::<TC>(LABEL, false, m)).await;
        self.srv.lookup_claim(LABEL, m, &value_of(m), 1, fresh).await
    }
    fn verify_history(&self, p: HistoryProof, s: u64, n: u64) -> Option<u64> {
        // the parameter under which a range [s..n] is admissible
        let hp = if s == 1 { HistoryParams::Complete } else { HistoryParams::MostRecent((n - s + 1) as usize) };
        verify_history::<TC>(LABEL, p, &self.eh, HistoryVerificationParams::Default { history_params: hp }).ok().map(|l| l[0].1)
    }
    fn verify_lookup(&self, p: LookupProof) -> Option<u64> {
        verify_lookup::<TC>(LABEL, p, &self.eh).ok().map(|r| r.1)
    }
}

#[derive(Clone, Copy, Debug, PartialEq)]
enum Claim {
    History(u64, u64),
    Lookup(u64),
}

fn req_of(c: &Claim, e: u64) -> Req {
    match c {
        Claim::History(s, n) => history_req(*s, *n, e),
        Claim::Lookup(m) => lookup_req(*m),
    }
}

async fn accepts<TC: ModelCfg>(atoms: &BTreeSet<Atom>, e: u64, c: &Claim) -> Option<u64> {
    let p = prover::<TC>(atoms, e).await;
    match c {
        Claim::History(s, n) => p.verify_history(p.history(*s, *n).await, *s, *n),
        Claim::Lookup(m) => p.verify_lookup(p.lookup(*m).await),
    }
}

/// conformance of the abstract constraint sets with the real verifiers, exhaustive for e <= emax
fn conformance<TC: ModelCfg>(args: &Args, rep: &Report, emax: u64) {
    let mut claims: Vec<(u64, Claim)> = vec![];
    for e in 1..=emax {
        for n in 1..=e {
            for s in 1..=n {
                claims.push((e, Claim::History(s, n)));
            }
            claims.push((e, Claim::Lookup(n)));
        }
    }
    crate::explore::par_for(args.threads, &claims, |_, (e, c)| {
        let rt = crate::gate::plain_runtime();
        rt.block_on(async {
            let r = req_of(c, *e);
            let want_latest = match c {
                Claim::History(_, n) => *n,
                Claim::Lookup(m) => *m,
            };
            let ident = |k: &str| format!("{}/abstract_model_disagrees_with_real_verifier/{}/{}", TC::NAME, if matches!(c, Claim::History(..)) { "history" } else { "lookup" }, k);
            if !consistent(&r) {
                rep.violation(ident("self_contradictory_requirements"), json!({"claim": format!("{c:?}"), "epoch": e}));
                return;
            }
            // (i) verifies on its minimal tree
            rep.traces(1);
            rep.eval(1);
            let present = r.present();
            if accepts::<TC>(&present, *e, c).await != Some(want_latest) {
                rep.violation(ident("minimal_tree_rejected"), json!({"claim": format!("{c:?}"), "epoch": e, "tree": format!("{:?}", present)}));
                return;
            }
            // (ii) removing any one required-present atom makes it fail
            for a in present.iter() {
                let mut t = present.clone();
                t.remove(a);
                rep.traces(1);
                rep.eval(1);
                if accepts::<TC>(&t, *e, c).await.is_some() {
                    rep.violation(ident("accepted_without_a_required_leaf"), json!({"claim": format!("{c:?}"), "epoch": e, "missing": format!("{a:?}")}));
                }
                // the server's work-around: present the history with the entry that needs the missing leaf
                // overwritten by a copy of a neighbouring entry (same length, a duplicate plus a gap)
                if let Claim::History(s, n) = c {
                    let affected = match a {
                        Atom::F(v) => *v,
                        Atom::S(v) => *v + 1,
                    };
                    if affected >= *s && affected <= *n && n > s {
                        let p = prover::<TC>(&t, *e).await;
                        let base = p.history_with_overwrite(*s, *n, affected).await;
                        for cand in base {
                            rep.traces(1);
                            rep.eval(1);
                            if p.verify_history(cand, *s, *n).is_some() {
                                rep.violation(ident("accepted_with_duplicated_entry_in_place_of_missing_leaf"), json!({"claim": format!("{c:?}"), "epoch": e, "missing": format!("{a:?}")}));
                            }
                        }
                    }
                }
            }
            // (iii) adding any one required-absent atom makes it fail
            for a in r.absent.iter() {
                let mut t = present.clone();
                t.insert(*a);
                rep.traces(1);
                rep.eval(1);
                if accepts::<TC>(&t, *e, c).await.is_some() {
                    rep.violation(ident("accepted_despite_a_forbidden_leaf"), json!({"claim": format!("{c:?}"), "epoch": e, "extra": format!("{a:?}")}));
                }
            }
            rep.distinct(format!("{}:conf:{}:{:?}", TC::NAME, e, c));
        });
    });
}

/// claims about versions greater than the epoch must be rejected even when a dishonest tree contains
/// every leaf the claim needs
fn beyond_epoch<TC: ModelCfg>(args: &Args, rep: &Report, emax: u64) {
    let mut claims: Vec<(u64, Claim)> = vec![];
    for e in 1..=emax {
        for m in [e + 1, e + 2] {
            claims.push((e, Claim::Lookup(m)));
            claims.push((e, Claim::History(1, m)));
            claims.push((e, Claim::History(m, m)));
        }
    }
    crate::explore::par_for(args.threads, &claims, |_, (e, c)| {
        let rt = crate::gate::plain_runtime();
        rt.block_on(async {
            // the tree holds what the claim would need at a later epoch (requirements computed for epoch e+2)
            let present = req_of(c, *e + 2).present();
            rep.traces(1);
            rep.eval(1);
            if accepts::<TC>(&present, *e, c).await.is_some() {
                rep.violation(
                    format!("{}/version_greater_than_epoch_accepted/{}", TC::NAME, if matches!(c, Claim::History(..)) { "history" } else { "lookup" }),
                    json!({"claim": format!("{c:?}"), "epoch": e}),
                );
            }
        });
    });
}

/// replay a pair on the union tree: violation iff both real verifiers accept with different latest versions
async fn replay_pair<TC: ModelCfg>(rep: &Report, e: u64, a: &Claim, b: &Claim) -> bool {
    let ra = req_of(a, e);
    let rb = req_of(b, e);
    let union: BTreeSet<Atom> = ra.present().union(&rb.present()).cloned().collect();
    rep.traces(1);
    let va = accepts::<TC>(&union, e, a).await;
    let vb = accepts::<TC>(&union, e, b).await;
    va.is_some() && vb.is_some() && va != vb
}

fn sweep<TC: ModelCfg>(args: &Args, rep: &Report, e_hist: u64, e_lookup: u64, replay_e: u64) {
    // ---- history vs history: all E <= e_hist, all n != m, all s <= n, s' <= m
    let es: Vec<u64> = (1..=e_hist).collect();
    let hh_compatible = std::sync::Mutex::new(Vec::<(u64, u64, u64, u64, u64)>::new());
    crate::explore::par_for(args.threads, &es, |_, &e| {
        let reqs: Vec<(u64, u64, Req)> = (1..=e).flat_map(|n| (1..=n).map(move |s| (s, n))).map(|(s, n)| (s, n, history_req(s, n, e))).collect();
        let mut pairs = 0u64;
        for i in 0..reqs.len() {
            for j in i + 1..reqs.len() {
                if reqs[i].1 == reqs[j].1 {
                    continue;
                }
                pairs += 1;
                if conflict(&reqs[i].2, &reqs[j].2).is_none() {
                    hh_compatible.lock().unwrap().push((e, reqs[i].0, reqs[i].1, reqs[j].0, reqs[j].1));
                }
            }
        }
        rep.eval(pairs);
        rep.states(reqs.len() as u64, pairs);
    });
    // ---- complete history vs lookup: all E <= e_lookup, all n != m
    let es2: Vec<u64> = (1..=e_lookup).chain([(1 << 16) - 1, 1 << 16, (1 << 16) + 1, (1u64 << 32) - 1, 1u64 << 32, (1u64 << 32) + 1]).collect();
    // per epoch: (count, count with lookup version below the history's, digest of the pair list); the pairs
    // themselves are kept only for small epochs (replay) and as first examples
    let hl_stats = std::sync::Mutex::new(std::collections::BTreeMap::<u64, (u64, u64, [u8; 32])>::new());
    let hl_compatible = std::sync::Mutex::new(Vec::<(u64, u64, u64)>::new());
    crate::explore::par_for(args.threads, &es2, |_, &e| {
        // beyond the dense range: sparse n, m around powers of two and skip-list elements
        let candidates: Vec<u64> = if e <= e_lookup {
            (1..=e).collect()
        } else {
            let mut c: BTreeSet<u64> = BTreeSet::new();
            for k in 0..40 {
                for d in [-1i64, 0, 1] {
                    let v = (1i64 << k) + d;
                    if v >= 1 && (v as u64) <= e {
                        c.insert(v as u64);
                    }
                }
            }
            for v in [3, 5, 6, 7, 85, 1000, e - 1, e] {
                if v >= 1 && v <= e {
                    c.insert(v);
                }
            }
            c.into_iter().collect()
        };
        let mut pairs = 0u64;
        let lookups: Vec<(u64, Req)> = candidates.iter().map(|&m| (m, lookup_req(m))).collect();
        let mut hasher = blake3::Hasher::new();
        let (mut cnt, mut below) = (0u64, 0u64);
        let mut keep = vec![];
        for &n in &candidates {
            let h = history_req(1, n, e);
            for (m, l) in &lookups {
                if *m == n {
                    continue;
                }
                pairs += 1;
                if conflict(&h, l).is_none() {
                    cnt += 1;
                    if *m < n {
                        below += 1;
                    }
                    hasher.update(&n.to_be_bytes());
                    hasher.update(&m.to_be_bytes());
                    if e <= 40 || keep.len() < 3 {
                        keep.push((e, n, *m));
                    }
                }
            }
        }
        hl_stats.lock().unwrap().insert(e, (cnt, below, *hasher.finalize().as_bytes()));
        hl_compatible.lock().unwrap().extend(keep);
        rep.eval(pairs);
        rep.states(candidates.len() as u64, pairs);
    });
    let mut hh = hh_compatible.into_inner().unwrap();
    hh.sort();
    let mut hl = hl_compatible.into_inner().unwrap();
    hl.sort();
    rep.count(&format!("{}:history_history_pairs_without_conflict_atom", TC::NAME), hh.len() as u64);
    let hl_stats = hl_stats.into_inner().unwrap();
    let hl_total: u64 = hl_stats.values().map(|v| v.0).sum();
    let hl_below: u64 = hl_stats.values().map(|v| v.1).sum();
    let mut set_hasher = blake3::Hasher::new();
    for (e, (c, _, d)) in hl_stats.iter() {
        set_hasher.update(&e.to_be_bytes());
        set_hasher.update(&c.to_be_bytes());
        set_hasher.update(d);
    }
    let hl_set = set_hasher.finalize().to_hex();
    rep.count(&format!("{}:history_lookup_pairs_without_conflict_atom", TC::NAME), hl_total);
    // ---- every pair without a conflict atom is a candidate: replay on real trees (all with E <= replay_e, plus
    // the first one of every larger E <= 40), violation iff both real verifiers accept
    let rt_items: Vec<(u64, Claim, Claim)> = hh
        .iter()
        .filter(|p| p.0 <= replay_e)
        .map(|&(e, s, n, s2, m)| (e, Claim::History(s, n), Claim::History(s2, m)))
        .chain(hl.iter().filter(|p| p.0 <= replay_e).map(|&(e, n, m)| (e, Claim::History(1, n), Claim::Lookup(m))))
        .chain({
            let mut seen = BTreeSet::new();
            hl.iter().filter(|p| p.0 > replay_e && p.0 <= 40 && seen.insert(p.0)).map(|&(e, n, m)| (e, Claim::History(1, n), Claim::Lookup(m))).collect::<Vec<_>>()
        })
        .collect();
    let confirmed = std::sync::atomic::AtomicU64::new(0);
    crate::explore::par_for(args.threads, &rt_items, |_, (e, a, b)| {
        let rt = crate::gate::plain_runtime();
        rt.block_on(async {
            rep.eval(1);
            if replay_pair::<TC>(rep, *e, a, b).await {
                confirmed.fetch_add(1, std::sync::atomic::Ordering::Relaxed);
            } else {
                rep.violation(
                    format!("{}/abstract_model_disagrees_with_real_verifier/compatible_pair_not_accepted_on_union_tree", TC::NAME),
                    json!({"epoch": e, "a": format!("{a:?}"), "b": format!("{b:?}")}),
                );
            }
        });
    });
    rep.count(&format!("{}:compatible_pairs_replayed_on_real_trees", TC::NAME), rt_items.len() as u64);
    rep.count(&format!("{}:compatible_pairs_confirmed_by_both_real_verifiers", TC::NAME), confirmed.load(std::sync::atomic::Ordering::Relaxed));
    // ---- verdicts. The identity pins the exact set of compatible pairs, so that any change of the set
    // (a weakened marker list, a changed lookup marker) is a different violation.
    if !hh.is_empty() {
        let h = blake3::hash(format!("{hh:?}").as_bytes()).to_hex();
        rep.violation(
            format!("{}/two_histories_with_different_latest_versions_can_both_verify/E<={}/pairs={}/set={}", TC::NAME, e_hist, hh.len(), &h.as_str()[..16]),
            json!({"first_pairs": hh.iter().take(10).map(|p| format!("E={} history[{}..{}] vs history[{}..{}]", p.0, p.1, p.2, p.3, p.4)).collect::<Vec<_>>()}),
        );
    }
    if hl_total > 0 {
        rep.violation(
            format!("{}/complete_history_and_lookup_with_different_versions_can_both_verify/E<={}/pairs={}/lookup_version_below_history={}/set={}", TC::NAME, e_lookup, hl_total, hl_below, &hl_set.as_str()[..16]),
            json!({"first_pairs": hl.iter().take(12).map(|p| format!("E={} complete history latest {} vs lookup version {}", p.0, p.1, p.2)).collect::<Vec<_>>(),
                   "smallest_example": hl.first().map(|p| format!("epoch {}: leaves F(1..{}), S(1..{}), F({}), F({}): history says latest {}, lookup says {}", p.0, p.1, p.1.saturating_sub(1), p.2, 1u64 << (63 - p.2.leading_zeros()), p.1, p.2)),
                   "replayed_on_real_trees": rt_items.len(), "confirmed_by_both_real_verifiers": confirmed.load(std::sync::atomic::Ordering::Relaxed)}),
        );
    }
    rep.sample(json!({"cfg": TC::NAME, "history_vs_history": format!("all E<={e_hist}, all ranges [s..n] vs [s'..m], n != m"), "complete_history_vs_lookup": format!("all E<={e_lookup} plus 2^16+-1, 2^32+-1 (sparse versions)"),
                      "example_requirement": format!("{:?}", history_req(3, 5, 33))}));
}

// ---- presence / absence exclusivity on ARBITRARY trees. The abstract model above treats "leaf present" and
// "leaf absent" as exclusive under one root. For canonical tries over arbitrary leaf sets that is C05; the
// property speaks of any tree whatsoever, so here every small binary tree with arbitrary interior labels and
// arbitrarily placed leaves is hashed the way a dishonest server would, and for every label every membership
// proof (the leaf's actual path) and every non-membership proof (anchored at every interior node) the server
// can read off that tree goes through the real verifiers: both kinds must never verify for the same label.
#[derive(Clone, Debug)]
enum ATree {
    Leaf(usize),
    Node(usize, Box<ATree>, Box<ATree>), // interior label index, left, right
}

fn atrees(leaves: usize, n_int: usize) -> Vec<ATree> {
    // all binary trees with exactly `leaves` leaves (leaf ids assigned later), interior labels from 0..n_int
    if leaves == 1 {
        return vec![ATree::Leaf(0)];
    }
    let mut out = vec![];
    for l in 1..leaves {
        for a in atrees(l, n_int) {
            for b in atrees(leaves - l, n_int) {
                for i in 0..n_int {
                    out.push(ATree::Node(i, Box::new(a.clone()), Box::new(b.clone())));
                }
            }
        }
    }
    out
}

fn assign_leaves(t: &ATree, perm: &[usize], next: &mut usize) -> ATree {
    match t {
        ATree::Leaf(_) => {
            let x = perm[*next];
            *next += 1;
            ATree::Leaf(x)
        }
        ATree::Node(i, a, b) => {
            let a2 = assign_leaves(a, perm, next);
            let b2 = assign_leaves(b, perm, next);
            ATree::Node(*i, Box::new(a2), Box::new(b2))
        }
    }
}

fn arbitrary_tree_exclusivity<TC: ModelCfg>(args: &Args, rep: &Report) {
    use akd::{AzksElement, AzksValue, Direction, MembershipProof, NodeLabel, NonMembershipProof, SiblingProof};
    use akd_core::verify::base::{verify_membership_for_tests_only, verify_nonmembership_for_tests_only};
    // leaf labels: 256-bit labels with prefixes 00, 01, 10, 11 (quick) plus 000/001-style neighbours (thorough)
    let mk = |prefix: &[bool]| -> Bits {
        let tail = blake3::hash(format!("akdmc c08 arbitrary {:?}", prefix).as_bytes());
        let t = Bits::from_bytes(tail.as_bytes(), 256);
        let mut v = prefix.to_vec();
        v.extend_from_slice(&t.0[prefix.len()..]);
        Bits(v)
    };
    let leaf_prefixes: Vec<Vec<bool>> = if args.quick() {
        vec![vec![false, false], vec![false, true], vec![true, false], vec![true, true]]
    } else {
        vec![vec![false, false, false], vec![false, false, true], vec![false, true], vec![true, false], vec![true, true, false], vec![true, true, true]]
    };
    let leaf_labels: Vec<Bits> = leaf_prefixes.iter().map(|p| mk(p)).collect();
    // interior label pool: every bit string of length 1..=2 (thorough: ..=3)
    let mut pool: Vec<Bits> = vec![];
    for len in 1..=(if args.quick() { 2 } else { 3 }) {
        for v in 0..(1u32 << len) {
            pool.push(Bits((0..len).map(|i| v & (1 << (len - 1 - i)) != 0).collect()));
        }
    }
    // the same interior labels with garbage bits beyond their length (labels are hashed as 32 bytes + length, so a
    // server can build its tree with such labels; prefix tests must ignore the garbage)
    let n_canonical = pool.len();
    let junk: Vec<akd::NodeLabel> = pool.iter().map(|b| {
        let mut nl = bits_nl(b);
        nl.label_val[31] ^= 0x01;
        nl.label_val[(b.len() / 8).min(31)] ^= 0x80 >> (b.len() % 8);
        nl
    }).collect();
    // thorough: also every 4-leaf tree, with the canonical interior labels of <= 2 bits only
    let max_leaves = if args.quick() { 3usize } else { 4usize };
    struct Flat {
        label: NodeLabel,
        value: AzksValue,
        kids: Option<(usize, usize)>,
        parent: Option<(usize, Direction)>,
    }
    let leaf_value = |i: usize| AzksValue(*blake3::hash(format!("akdmc c08 leaf value {i}").as_bytes()).as_bytes());
    let empty = AzksElement { label: TC::empty_label(), value: TC::empty_node_hash() };
    let mut work: Vec<(ATree, Option<bool>)> = vec![]; // (subtrees under the root, None = root has two children given by a Node with dummy label; Some(side) = single child on that side)
    // permutations of k distinct leaf ids out of n
    fn perms(n: usize, k: usize) -> Vec<Vec<usize>> {
        if k == 0 {
            return vec![vec![]];
        }
        let mut out = vec![];
        for p in perms(n, k - 1) {
            for x in 0..n {
                if !p.contains(&x) {
                    let mut q = p.clone();
                    q.push(x);
                    out.push(q);
                }
            }
        }
        out
    }
    for k in 1..=max_leaves {
        for shape in atrees(k, if k >= 4 { 6 } else { pool.len() * 2 }) {
            for perm in perms(leaf_labels.len(), k) {
                let t = assign_leaves(&shape, &perm, &mut 0);
                // the root itself: either this tree's top node IS the root's pair of children (if it is a Node: its label is
                // ignored and replaced by the root label), or the tree hangs as the root's only child on either side
                if let ATree::Node(0, _, _) = &t {
                    work.push((t.clone(), None));
                }
                work.push((t.clone(), Some(false)));
                work.push((t.clone(), Some(true)));
            }
        }
    }
    rep.count(&format!("{}:arbitrary_trees", TC::NAME), work.len() as u64);
    let pool = &pool;
    let junk = &junk;
    let leaf_labels = &leaf_labels;
    crate::explore::par_for(args.threads, &work, |_, (t, single)| {
        // flatten with hashes
        let mut flat: Vec<Flat> = vec![];
        fn build<TC: ModelCfg>(t: &ATree, flat: &mut Vec<Flat>, pool: &[Bits], junk: &[NodeLabel], leaf_labels: &[Bits], leaf_value: &dyn Fn(usize) -> AzksValue, as_root: bool) -> usize {
            match t {
                ATree::Leaf(x) => {
                    flat.push(Flat { label: bits_nl(&leaf_labels[*x]), value: leaf_value(*x), kids: None, parent: None });
                    flat.len() - 1
                }
                ATree::Node(i, a, b) => {
                    let ia = build::<TC>(a, flat, pool, junk, leaf_labels, leaf_value, false);
                    let ib = build::<TC>(b, flat, pool, junk, leaf_labels, leaf_value, false);
                    let v = TC::compute_parent_hash_from_children(&flat[ia].value, &flat[ia].label.value::<TC>(), &flat[ib].value, &flat[ib].label.value::<TC>());
                    let label = if as_root { NodeLabel::root() } else if *i < pool.len() { bits_nl(&pool[*i]) } else { junk[*i - pool.len()] };
                    flat.push(Flat { label, value: v, kids: Some((ia, ib)), parent: None });
                    let me = flat.len() - 1;
                    flat[ia].parent = Some((me, Direction::Left));
                    flat[ib].parent = Some((me, Direction::Right));
                    me
                }
            }
        }
        // root children as elements
        let (root_left, root_right): (AzksElement, AzksElement);
        let root_idx: Option<usize>;
        let mut top_child: Option<(usize, Direction)> = None;
        match single {
            None => {
                let r = build::<TC>(t, &mut flat, pool, junk, leaf_labels, &leaf_value, true);
                let (a, b) = flat[r].kids.unwrap();
                root_left = AzksElement { label: flat[a].label, value: flat[a].value };
                root_right = AzksElement { label: flat[b].label, value: flat[b].value };
                root_idx = Some(r);
            }
            Some(side) => {
                let c = build::<TC>(t, &mut flat, pool, junk, leaf_labels, &leaf_value, false);
                let ce = AzksElement { label: flat[c].label, value: flat[c].value };
                if *side {
                    root_left = empty;
                    root_right = ce;
                    top_child = Some((c, Direction::Right));
                } else {
                    root_left = ce;
                    root_right = empty;
                    top_child = Some((c, Direction::Left));
                }
                root_idx = None;
            }
        }
        let root_value = match root_idx {
            Some(r) => flat[r].value,
            None => TC::compute_parent_hash_from_children(&root_left.value, &root_left.label.value::<TC>(), &root_right.value, &root_right.label.value::<TC>()),
        };
        let root_hash = TC::compute_root_hash_from_val(&root_value);
        // membership proof of flat node i along its actual path
        let member = |i: usize| -> MembershipProof {
            let mut sibs = vec![];
            let mut cur = i;
            loop {
                match flat[cur].parent {
                    Some((p, dir)) => {
                        let (a, b) = flat[p].kids.unwrap();
                        let sib = if dir == Direction::Left { b } else { a };
                        sibs.push(SiblingProof { label: flat[p].label, siblings: [AzksElement { label: flat[sib].label, value: flat[sib].value }], direction: dir });
                        cur = p;
                    }
                    None => {
                        if let Some((c, dir)) = top_child {
                            if cur == c {
                                sibs.push(SiblingProof { label: NodeLabel::root(), siblings: [empty], direction: dir });
                            }
                        }
                        break;
                    }
                }
            }
            sibs.reverse();
            MembershipProof { label: flat[i].label, hash_val: flat[i].value, sibling_proofs: sibs }
        };
        let root_member = MembershipProof { label: NodeLabel::root(), hash_val: root_value, sibling_proofs: vec![] };
        for (x, xl) in leaf_labels.iter().enumerate() {
            let xn = bits_nl(xl);
            // every way to show x present: each leaf node carrying that label
            let mut present = vec![];
            for (i, f) in flat.iter().enumerate() {
                if f.kids.is_none() && f.label == xn {
                    rep.eval(1);
                    if verify_membership_for_tests_only::<TC>(root_hash, &member(i)).is_ok() {
                        present.push(i);
                    }
                }
            }
            // every way to show x absent: anchored at the root and at every interior node
            let mut absent = vec![];
            let mut anchors: Vec<(NodeLabel, [AzksElement; 2], MembershipProof)> = vec![(NodeLabel::root(), [root_left, root_right], root_member.clone())];
            for (i, f) in flat.iter().enumerate() {
                if let Some((a, b)) = f.kids {
                    if Some(i) == root_idx {
                        continue;
                    }
                    anchors.push((f.label, [AzksElement { label: flat[a].label, value: flat[a].value }, AzksElement { label: flat[b].label, value: flat[b].value }], member(i)));
                }
            }
            for (al, kids, mp) in anchors {
                rep.eval(1);
                let p = NonMembershipProof { label: xn, longest_prefix: al, longest_prefix_children: kids, longest_prefix_membership_proof: mp };
                if verify_nonmembership_for_tests_only::<TC>(root_hash, &p).is_ok() {
                    absent.push(nl_bits(&al).show());
                }
            }
            let _ = x;
            if !present.is_empty() && !absent.is_empty() {
                rep.violation(
                    format!("{}/arbitrary_tree/presence_and_absence_of_one_label_both_verify", TC::NAME),
                    json!({"tree": format!("{t:?}"), "root_single_child_side": format!("{single:?}"), "label": xl.show(), "absence_anchored_at": absent,
                           "leaf_labels": leaf_labels.iter().map(|l| l.prefix(4).show()).collect::<Vec<_>>(), "interior_pool": pool.iter().map(|b| b.show()).collect::<Vec<_>>(), "interior_label_indices_at_or_above": format!("{n_canonical} carry garbage bits beyond their length")}),
                );
            } else {
                rep.distinct(format!("{}:arb:{}:{}", TC::NAME, !present.is_empty(), !absent.is_empty()));
            }
        }
        rep.traces(1);
    });
}

pub fn run(args: &Args) -> i32 {
    let rep = Report::new("C08", &args.tier, "model_checking");
    let (e_hist, e_lookup, conf_e) = if args.quick() { (64, 1024, 7) } else { (160, 4096, 10) };
    arbitrary_tree_exclusivity::<W>(args, &rep);
    arbitrary_tree_exclusivity::<ECfg>(args, &rep);
    conformance::<W>(args, &rep, conf_e);
    beyond_epoch::<W>(args, &rep, conf_e);
    beyond_epoch::<ECfg>(args, &rep, conf_e);
    conformance::<ECfg>(args, &rep, if args.quick() { 4 } else { conf_e });
    sweep::<W>(args, &rep, e_hist, e_lookup, conf_e);
    if !args.quick() {
        sweep::<ECfg>(args, &rep, e_hist.min(64), e_lookup.min(512), conf_e);
    }
    rep.finish(
        "abstract model: constraint sets over atoms F(v)/S(v) (fresh/stale leaf of version v required present or absent), marker lists from the real get_marker_versions. states = (epoch, range) configurations examined, transitions = pairs examined. Sweep: every pair of history ranges with different latest versions for every epoch up to the bound, and every (complete history latest n, lookup version m != n) pair (dense up to the bound, sparse around 2^16 and 2^32): a pair with no atom required present by one and absent by the other is compatible. Conformance (traces_validated = real-tree experiments): for every history range and lookup version at every epoch up to the conformance bound a real tree holding exactly the required leaves is built by a dishonest publisher; the real verifier must accept it, reject it when any one required leaf is removed, and reject it when any one forbidden leaf is added; compatible pairs are replayed on the union tree and count only if both real verifiers accept. Arbitrary trees: every binary tree with <= 3 (thorough: 4, interior labels of <= 2 bits) arbitrarily placed leaves and arbitrary interior labels (canonical and with garbage bits beyond their length), hashed like a server would; every membership proof (actual path) and non-membership proof (every interior anchor) through the real verifiers: never both for one label",
        &["dishonest server may place any fresh/stale leaves with any epochs (all leaves stamped with one epoch in the experiments)", "blake3 collision resistance, VRF uniqueness", "presence/absence exclusivity: C05 for canonical tries, the arbitrary-tree enumeration (<= 3 leaves) for non-canonical ones"],
    )
}
