//! Evidence accounting, violation collection, known-findings matching, replay files.

use serde_json::{json, Value};
use std::collections::{BTreeMap, BTreeSet};
use std::sync::Mutex;
use std::time::Instant;

pub struct Violation {
    /// structured identity: stable across runs, names the failing input / call site / history class
    pub identity: String,
    pub detail: Value,
}

pub struct Report {
    pub property: String,
    pub tier: String,
    pub level: String,
    pub start: Instant,
    pub evals: std::sync::atomic::AtomicU64,
    pub inner: Mutex<Inner>,
}

#[derive(Default)]
pub struct Inner {
    pub evaluations: u64,
    pub distinct: BTreeSet<String>,
    pub distinct_overflow: u64,
    pub samples: Vec<Value>,
    pub violations: BTreeMap<String, (u64, Value)>,
    pub counters: BTreeMap<String, u64>,
    pub notes: Vec<String>,
    pub states: u64,
    pub transitions: u64,
    pub traces_validated: u64,
    pub exhaustive: bool,
    pub caps_hit: Vec<String>,
    pub extra: BTreeMap<String, Value>,
}

const MAX_DISTINCT: usize = 2_000_000;

impl Report {
    pub fn new(property: &str, tier: &str, level: &str) -> Report {
        let mut inner = Inner::default();
        inner.exhaustive = true;
        Report { property: property.into(), tier: tier.into(), level: level.into(), start: Instant::now(), evals: std::sync::atomic::AtomicU64::new(0), inner: Mutex::new(inner) }
    }
    pub fn eval(&self, n: u64) {
        self.evals.fetch_add(n, std::sync::atomic::Ordering::Relaxed);
    }
    pub fn count(&self, key: &str, n: u64) {
        *self.inner.lock().unwrap().counters.entry(key.to_string()).or_insert(0) += n;
    }
    /// record a distinct non-trivial case / outcome fingerprint
    pub fn distinct(&self, fp: String) {
        let mut g = self.inner.lock().unwrap();
        if g.distinct.len() < MAX_DISTINCT {
            g.distinct.insert(fp);
        } else if !g.distinct.contains(&fp) {
            g.distinct_overflow += 1;
        }
    }
    pub fn sample(&self, v: Value) {
        let mut g = self.inner.lock().unwrap();
        if g.samples.len() < 6 {
            g.samples.push(v);
        }
    }
    pub fn sample_cap(&self, v: Value, cap: usize) {
        let mut g = self.inner.lock().unwrap();
        if g.samples.len() < cap {
            g.samples.push(v);
        }
    }
    pub fn note(&self, s: String) {
        self.inner.lock().unwrap().notes.push(s);
    }
    pub fn cap_hit(&self, s: String) {
        let mut g = self.inner.lock().unwrap();
        g.exhaustive = false;
        g.caps_hit.push(s);
    }
    pub fn violation(&self, identity: String, detail: Value) {
        let mut g = self.inner.lock().unwrap();
        let e = g.violations.entry(identity).or_insert((0, detail));
        e.0 += 1;
    }
    pub fn states(&self, s: u64, t: u64) {
        let mut g = self.inner.lock().unwrap();
        g.states += s;
        g.transitions += t;
    }
    pub fn traces(&self, n: u64) {
        self.inner.lock().unwrap().traces_validated += n;
    }
    pub fn extra(&self, k: &str, v: Value) {
        self.inner.lock().unwrap().extra.insert(k.to_string(), v);
    }
    pub fn violation_count(&self) -> usize {
        self.inner.lock().unwrap().violations.len()
    }

    /// Write evidence, replay files; print VIOLATION / KNOWN-FINDING lines. Returns exit code.
    pub fn finish(&self, rule: &str, assumptions: &[&str]) -> i32 {
        let mut g = self.inner.lock().unwrap();
        g.evaluations += self.evals.load(std::sync::atomic::Ordering::Relaxed);
        // panics raised inside the subject while a case ran
        {
            let panics = crate::explore::SUBJECT_PANICS.lock().unwrap();
            for (loc, msg) in panics.iter() {
                let short = loc.rsplit("/repo/").next().unwrap_or(loc).to_string();
                let e = g.violations.entry(format!("subject_panicked/{short}")).or_insert((0, json!({"location": loc, "message": msg})));
                e.0 += 1;
            }
        }
        let verif = std::env::var("VERIF_DIR").unwrap_or_else(|_| "/verif".to_string());
        let seed: i64 = std::env::var("VERIF_SEED").ok().and_then(|s| s.parse().ok()).unwrap_or(0);
        let known = load_known(&verif, &self.property);
        let mut exit = 0;
        let mut new_violations = 0;
        let mut known_hits = 0;
        let _ = std::fs::create_dir_all(format!("{verif}/replays"));
        let mut printed = 0;
        for (id, (count, detail)) in g.violations.iter() {
            if let Some(k) = known.iter().find(|k| k.status == "known" && id.starts_with(&k.identity)) {
                known_hits += 1;
                println!("KNOWN-FINDING: property={} {} [{}] ({} occurrences)", self.property, k.description, id, count);
                continue;
            }
            new_violations += 1;
            exit = 1;
            if printed < 25 {
                printed += 1;
                let h = blake3::hash(id.as_bytes()).to_hex();
                let path = format!("{verif}/replays/{}-{}.json", self.property, &h.as_str()[..12]);
                let body = json!({"property": self.property, "identity": id, "occurrences": count, "detail": detail});
                let _ = std::fs::write(&path, serde_json::to_string_pretty(&body).unwrap());
                println!("VIOLATION property={} replay={}", self.property, path);
                eprintln!("  identity: {id}");
            }
        }
        let distinct_n = g.distinct.len() as u64 + g.distinct_overflow;
        let mut coverage = serde_json::Map::new();
        coverage.insert("evaluations".into(), json!(g.evaluations));
        coverage.insert("distinct_nontrivial".into(), json!(distinct_n));
        coverage.insert("rule".into(), json!(rule));
        coverage.insert("samples".into(), Value::Array(g.samples.clone()));
        coverage.insert("exhaustive".into(), json!(g.exhaustive));
        if self.level == "model_checking" {
            coverage.insert("states".into(), json!(g.states));
            coverage.insert("transitions".into(), json!(g.transitions));
            coverage.insert("traces_validated_against_impl".into(), json!(g.traces_validated));
        }
        if !g.caps_hit.is_empty() {
            coverage.insert("caps_hit".into(), json!(g.caps_hit));
        }
        coverage.insert("counters".into(), json!(g.counters));
        if !g.notes.is_empty() {
            coverage.insert("notes".into(), json!(g.notes));
        }
        for (k, v) in g.extra.iter() {
            coverage.insert(k.clone(), v.clone());
        }
        coverage.insert("known_findings_matched".into(), json!(known_hits));
        let ev = json!({
            "property_id": self.property,
            "tier": self.tier,
            "seed": seed,
            "level": self.level,
            "coverage": Value::Object(coverage),
            "assumptions": assumptions,
            "wall_s": self.start.elapsed().as_secs_f64(),
            "violations": new_violations,
        });
        let _ = std::fs::create_dir_all(format!("{verif}/evidence"));
        let path = format!("{verif}/evidence/{}.json", self.property);
        std::fs::write(&path, serde_json::to_string_pretty(&ev).unwrap()).expect("write evidence");
        eprintln!(
            "[{}] tier={} evaluations={} distinct={} states={} transitions={} violations={} known={} exhaustive={} wall={:.1}s",
            self.property,
            self.tier,
            g.evaluations,
            distinct_n,
            g.states,
            g.transitions,
            new_violations,
            known_hits,
            g.exhaustive,
            self.start.elapsed().as_secs_f64()
        );
        exit
    }
}

pub struct Known {
    pub identity: String,
    pub description: String,
    pub status: String,
}

fn load_known(verif: &str, property: &str) -> Vec<Known> {
    let p = format!("{verif}/known_findings.json");
    let Ok(s) = std::fs::read_to_string(&p) else { return vec![] };
    let Ok(v) = serde_json::from_str::<Value>(&s) else {
        eprintln!("MACHINERY ERROR: known_findings.json does not parse");
        std::process::exit(2);
    };
    let mut out = vec![];
    if let Some(arr) = v.get("findings").and_then(|a| a.as_array()) {
        for f in arr {
            if f.get("property").and_then(|p| p.as_str()) == Some(property) {
                out.push(Known {
                    identity: f.get("identity").and_then(|x| x.as_str()).unwrap_or("").to_string(),
                    description: f.get("description").and_then(|x| x.as_str()).unwrap_or("").to_string(),
                    status: f.get("status").and_then(|x| x.as_str()).unwrap_or("known").to_string(),
                });
            }
        }
    }
    out
}

pub fn hexs(b: &[u8]) -> String {
    hex::encode(b)
}
pub fn hex8(b: &[u8]) -> String {
    hex::encode(&b[..b.len().min(8)])
}
